#!/bin/bash
# runs every registered quick (or $1) command on the current tree; prints a one-line summary each
V="${VERIF_DIR:-$(cd "$(dirname "$0")/.." && pwd)}"
cd "$V"
tier=${1:-quick}
tmo=${2:-3600}
for id in $(python3 -c "import json;print(' '.join(c['property_id'] for c in json.load(open('MANIFEST.json'))['checks']))"); do
  s=$(date +%s)
  out=$(timeout $tmo ./check $id $tier 2>&1)
  rc=$?
  e=$(date +%s)
  echo "$id rc=$rc $((e-s))s :: $(echo "$out" | grep '^check' | tail -1) :: $(echo "$out" | grep -c '^INCONCLUSIVE') incon"
  echo "$out" | grep '^INCONCLUSIVE\|^VIOLATION' | head -5 | cut -c1-300
done
