#!/usr/bin/env python3
# Regenerates /verif/MANIFEST.json from the table below (kept in one place so it stays valid).
import json
props=[json.loads(l) for l in open('/verif/properties.jsonl')]
ENG="gosmt (verifx)"
TECH="SSA-to-SMT bounded symbolic execution of the real code (cvc5/z3), native replay of solver models"
checks={
 "C08":("model_checking","bounded symbolic execution of detection.ComputeTopologySimilarity, MatchCalls, MatchSignature (IEEE doubles in the SMT FloatingPoint theory) and of jsondb.ScanTopology/ScanTopologyExact, composed by assume-guarantee contracts; every alert is shown to have a real confidence in [threshold,1] with no required call missing, descending order, threshold monotonicity and exact-implies-full","small universes (<=2 call keys, <=2 required calls, <=3 signatures), counters in [-4,2^20]; MatchSignature's contract is what the back-end harness uses; Pebble back end's filter not yet covered here; solvers and go/ssa trusted","4 C08"),
 "C15":("model_checking","bounded symbolic execution of diff.GetHardenedEnv from go/ssa over every environment of <=2 (thorough 3) ASCII entries of <=13 (14) bytes; every path's assertions discharged by z3 (cvc5 cross-check in thorough)","ASCII-only case mapping; os.Environ stubbed; bounds on entry count/length; Go compiler, go/ssa and the SMT solvers trusted","4 C15"),
 "C19":("model_checking","bounded symbolic execution of topology.typeListSimilarity, MapSimilarity and TopologySimilarity (doubles in the FloatingPoint theory; symmetry decided with float arithmetic abstracted to uninterpreted functions, integers exact): range [0,1], bit-exact symmetry, exactly 1.0 on field-wise equal topologies","counters <= 2^20, lists <= 2, 2-key maps; TopologySimilarity composed with the two helpers' proven contracts; that a renamed copy has an equal topology is a premise; the matcher clauses (one-to-one, threshold) are covered by the C09 harness","4 C19"),
 "C20":("model_checking","bounded symbolic execution of pebbledb.NewPebbleScanner's path guard (incl. resolveDBLocation, filepath.Join/Clean from their SSA) against a symbolic file-system table: symlink targets, working directories and new paths are solver-chosen clean absolute paths up to 7 (thorough 10) bytes; the true location is computed independently by the harness; both directions asserted on every path","file system modelled by a table of EvalSymlinks/Stat/Getwd answers in eight scenario families; path alphabet [a-z0-9._/-]; pebble.Open stubbed; native replays run read-only","4 C20"),
}
na_reason={}
m={
 "version":1,
 "setup_cmd":"./build.sh && ./bin/verifx selftest",
 "hooks":{"guard":"verif_harness","enable":"harness files and the engine are injected with go build/test -overlay and -tags verif_harness; nothing is written under /repo","baseline_off_cmd":"cd /repo && GOFLAGS=-mod=mod GOPROXY=off go test -vet=off -count=1 -timeout 25m ./...","source_commits":[],"add_only":True},
 "engines":[{"name":ENG,"path":"/verif/engine","serves_properties":sorted(checks),"kind_free_text":"go/ssa -> SMT-LIB2 symbolic executor (bit-vectors, IEEE doubles, bounded byte strings) driving z3/cvc5; counterexamples replayed natively"}],
 "checks":[],
 "notes":"Two genuine C20 defects were repaired in /repo (fix: commits 17035bd, 5259946); see known_findings.json and DESIGN.md section 5.",
 "not_applicable":[]
}
for pid in sorted(checks):
    cat,text,note,ref=checks[pid]
    m["checks"].append({"property_id":pid,"quick_cmd":f"./check {pid} quick","thorough_cmd":f"./check {pid} thorough","evidence_file":f"/verif/evidence/{pid}.json",
      "replay_cmd_template":f"./check {pid} --replay {{path}}","engine":ENG,
      "level_claimed":{"category":cat,"text":text,"design_ref":"DESIGN.md section "+ref},"level_note":note,"technique":TECH})
for p in props:
    if p["id"] not in checks:
        m["not_applicable"].append({"property_id":p["id"],"reason":na_reason.get(p["id"],"check not built yet (work in progress)")})
json.dump(m,open('/verif/MANIFEST.json','w'),indent=1)
print("checks:",sorted(checks))
