#!/usr/bin/env python3
# Regenerates /verif/MANIFEST.json from the table below (kept in one place so it stays valid).
import json
props=[json.loads(l) for l in open('/verif/properties.jsonl')]
ENG="gosmt (verifx)"
TECH="SSA-to-SMT bounded symbolic execution of the real code (cvc5/z3), native replay of solver models"
TV="SSA-to-SMT symbolic execution of generated subject programs (z3) as behavioural oracle; the tool's real code runs natively on the same sources; distinguishing inputs replayed natively"
checks={
 "C02":("translation_validation","for every refactoring pair of the fixed catalogue the solver proves P and P' equivalent on all inputs within the unwinding bound (self-composition over go/ssa), then the real fingerprinter must give equal fingerprints under both literal policies; documented-abstracted literal replacements are checked against the default policy","catalogue of programs is enumerated (stated bound); loops cut at the unwinding limit by assumption; tool side native","4 C02"),
 "C03":("translation_validation","for every catalogue pair whose fingerprints are equal (all literals kept, or default policy unless the pair differs only in documented-abstracted literals) the solver must prove the two functions equivalent; a satisfiable query yields a distinguishing input that is replayed natively on both functions","catalogue enumerated; inputs unconstrained within shape bounds (slices/strings <=3); loops cut at the unwinding limit by assumption","4 C03"),
 "C04":("translation_validation","cli.ComputeDiff runs natively on old/new files built from the catalogue; for every function reported 'preserved' whose source was edited the solver must prove old and new equivalent (else a native distinguishing input is the violation); identical copies must be preserved with no added/removed operations","catalogue enumerated; default literal policy (documented-abstracted literal edits excluded); functions beyond the 5000-block guard not generated","4 C04"),
 "C12":("translation_validation","loop.DetectLoops/AnalyzeSCEV run natively on the same ssa.Function the engine executes symbolically; at each header evaluation the solver checks IV == Start + k*Step (mod width) and at loop exit body-executions == TripCount(args) for all argument values reaching at most 10 (8-bit loops: 300) header evaluations","loop catalogue enumerated (all five comparisons, both exit-test polarities, limit on either side, steps, constant/parameter bounds, continue/break/return, nested, sibling); trip-count trees evaluated in 200-bit vectors","4 C12"),
 "C08":("model_checking","bounded symbolic execution of detection.ComputeTopologySimilarity, MatchCalls, MatchSignature (IEEE doubles in the SMT FloatingPoint theory) and of jsondb.ScanTopology/ScanTopologyExact, composed by assume-guarantee contracts; every alert is shown to have a real confidence in [threshold,1] with no required call missing, descending order, threshold monotonicity and exact-implies-full","small universes (<=2 call keys, <=2 required calls, <=3 signatures), counters in [-4,2^20]; MatchSignature's contract is what the back-end harness uses; Pebble back end's filter not yet covered here; solvers and go/ssa trusted","4 C08"),
 "C13":("model_checking","bounded symbolic execution of llm.executeOpenAIRaw (retry loop) over every script of 4 HTTP exchanges with symbolic transport failures, truncated bodies, status codes, decodability and item/role/content structure, compared with an independent specification of the retry discipline in both directions; then of llm.CallLLM/scanForInjection/validateOutput/parseLLMJSON with the provider call replaced by its proven contract: MATCH without error iff screen safe, both answers parsed, verdict exactly MATCH and evidence free of forbidden phrases; envelope structure of buildModernPrompts","net/http, encoding/json, context, regexp stubbed (listed in evidence); OpenAI-style path only (Gemini SDK path not encoded); verdict/evidence/message are short printable-ASCII strings; RunAudit's exit-status switch is not yet encoded; native replays drive the real client against an httptest server","4 C13"),
 "C15":("model_checking","bounded symbolic execution of diff.GetHardenedEnv from go/ssa over every environment of <=2 (thorough 3) ASCII entries of <=13 (14) bytes; every path's assertions discharged by z3 (cvc5 cross-check in thorough)","ASCII-only case mapping; os.Environ stubbed; bounds on entry count/length; Go compiler, go/ssa and the SMT solvers trusted","4 C15"),
 "C19":("model_checking","bounded symbolic execution of topology.typeListSimilarity, MapSimilarity and TopologySimilarity (doubles in the FloatingPoint theory; symmetry decided with float arithmetic abstracted to uninterpreted functions, integers exact): range [0,1], bit-exact symmetry, exactly 1.0 on field-wise equal topologies","counters <= 2^20, lists <= 2, 2-key maps; TopologySimilarity composed with the two helpers' proven contracts; that a renamed copy has an equal topology is a premise; the matcher clauses (one-to-one, threshold) are covered by the C09 harness","4 C19"),
 "C20":("model_checking","bounded symbolic execution of pebbledb.NewPebbleScanner's path guard (incl. resolveDBLocation, filepath.Join/Clean from their SSA) against a symbolic file-system table: symlink targets, working directories and new paths are solver-chosen clean absolute paths up to 7 (thorough 10) bytes; the true location is computed independently by the harness; both directions asserted on every path","file system modelled by a table of EvalSymlinks/Stat/Getwd answers in eight scenario families; path alphabet [a-z0-9._/-]; pebble.Open stubbed; native replays run read-only","4 C20"),
}
na_reason={}
m={
 "version":1,
 "setup_cmd":"./build.sh && ./bin/verifx selftest",
 "hooks":{"guard":"verif_harness","enable":"harness files and the engine are injected with go build/test -overlay and -tags verif_harness; nothing is written under /repo","baseline_off_cmd":"cd /repo && GOFLAGS=-mod=mod GOPROXY=off go test -vet=off -count=1 -timeout 25m ./...","source_commits":[],"add_only":True},
 "engines":[{"name":ENG,"path":"/verif/engine","serves_properties":sorted(checks),"kind_free_text":"go/ssa -> SMT-LIB2 symbolic executor (bit-vectors, IEEE doubles, bounded byte strings) driving z3/cvc5; counterexamples replayed natively"}],
 "checks":[],
 "notes":"Genuine defects repaired in /repo by fix: commits (C20 x2, C12/C02 exit polarity, C02 self references); genuine defects not repaired are listed in known_findings.json (C03, C04, C12 wrap-around); see DESIGN.md section 5.",
 "not_applicable":[]
}
for pid in sorted(checks):
    cat,text,note,ref=checks[pid]
    m["checks"].append({"property_id":pid,"quick_cmd":f"./check {pid} quick","thorough_cmd":f"./check {pid} thorough","evidence_file":f"/verif/evidence/{pid}.json",
      "replay_cmd_template":f"./check {pid} --replay {{path}}","engine":ENG,
      "level_claimed":{"category":cat,"text":text,"design_ref":"DESIGN.md section "+ref},"level_note":note,"technique":(TV if cat=="translation_validation" else TECH)})
for p in props:
    if p["id"] not in checks:
        m["not_applicable"].append({"property_id":p["id"],"reason":na_reason.get(p["id"],"check not built yet (work in progress)")})
json.dump(m,open('/verif/MANIFEST.json','w'),indent=1)
print("checks:",sorted(checks))
