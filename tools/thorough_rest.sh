#!/bin/bash
cd "$VERIF_DIR"
for id in C06 C09 C10 C11 C12 C13 C14 C15 C16 C18 C19 C20; do
  s=$(date +%s)
  out=$(timeout 2400 ./check $id thorough 2>&1)
  rc=$?
  e=$(date +%s)
  echo "$id rc=$rc $((e-s))s :: $(echo "$out" | grep '^check' | tail -1) :: $(echo "$out" | grep -c '^INCONCLUSIVE') incon"
  echo "$out" | grep '^INCONCLUSIVE\|^VIOLATION' | head -5 | cut -c1-300
done
