#!/bin/bash
# usage: seedeval.sh <seed-dir> <demo-pkg-dir> <demo-run-regex> <check-id>...
# 1) confirms the seeded change in a scratch worktree (builds, demo fails with / passes without)
# 2) applies it to /repo, runs the given checks (quick), reverts /repo
export GOFLAGS=-mod=mod GOPROXY=off
sd=$1; pkg=$2; rx=$3; shift 3
wt=/tmp/wt_eval_$$
git -C /repo worktree add -q $wt HEAD || exit 2
cd $wt
git apply $sd/patch.diff || { echo "PATCH DOES NOT APPLY"; git -C /repo worktree remove --force $wt; exit 2; }
go build ./... && echo "build: ok" || echo "build: FAILED"
cp $sd/*_test.go $pkg/ 2>/dev/null
with=$(go test -vet=off -count=1 -run "$rx" ./$pkg/ 2>&1 | tail -1)
echo "demo with change   : $with"
git checkout -q -- . 
without=$(go test -vet=off -count=1 -run "$rx" ./$pkg/ 2>&1 | tail -1)
echo "demo without change: $without"
git apply $sd/patch.diff
suite=$(go test -vet=off -count=1 ./... 2>&1 | grep "^FAIL\s" | grep -v internal/sandbox | head -5)
echo "suite with change (non-ok lines, TestGenerateSpec excluded): ${suite:-none}"
cd /; git -C /repo worktree remove --force $wt
cd /verif
git -C /repo apply $sd/patch.diff || exit 2
for id in "$@"; do
  out=$(timeout 1500 ./check $id quick 2>&1)
  echo "check $id rc=$? :: $(echo "$out" | grep -c '^VIOLATION') violations :: $(echo "$out" | grep '^check' | tail -1)"
  echo "$out" | grep '^VIOLATION\|^INCONCLUSIVE' | head -4 | cut -c1-220
done
git -C /repo checkout -- .
git -C /repo status --short | head -3
