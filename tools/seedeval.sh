#!/bin/bash
# usage: seedeval.sh <seed-dir> <demo-pkg-dir> <demo-run-regex> <check-id>[:tier]...
# 1) confirms the seeded change in a scratch worktree (builds, demo fails with / passes without, suite)
# 2) runs the given checks against that worktree (VERIF_REPO) with its own copy of /verif's output
#    dirs untouched: /repo itself is never modified.
export GOFLAGS=-mod=mod GOPROXY=off
sd=$1; pkg=$2; rx=$3; shift 3
wt=/tmp/wt_eval_$$
git -C /repo worktree add -q $wt HEAD || exit 2
cd $wt
git apply $sd/patch.diff || { echo "PATCH DOES NOT APPLY"; cd /; git -C /repo worktree remove --force $wt; exit 2; }
go build ./... && echo "build: ok" || echo "build: FAILED"
suite=$(go test -vet=off -count=1 ./... 2>&1 | grep "^FAIL\s" | grep -v internal/sandbox | head -5)
echo "suite with change (FAIL lines, internal/sandbox excluded): ${suite:-none}"
cp $sd/*_test.go $pkg/ 2>/dev/null
with=$(go test -vet=off -count=1 -run "$rx" ./$pkg/ 2>&1 | tail -1)
echo "demo with change   : $with"
git stash -q
cp $sd/*_test.go $pkg/ 2>/dev/null
without=$(go test -vet=off -count=1 -run "$rx" ./$pkg/ 2>&1 | tail -1)
echo "demo without change: $without"
rm -f $pkg/*demo*_test.go $pkg/demo_test.go
git stash pop -q
rm -f $pkg/*demo*_test.go $pkg/demo_test.go
cd "${VERIF_DIR:-/verif}"
for spec in "$@"; do
  id=${spec%%:*}; tier=quick; [[ "$spec" == *:* ]] && tier=${spec##*:}
  out=$(VERIF_REPO=$wt timeout 3000 ./check $id $tier 2>&1)
  echo "check $id $tier rc=$? :: $(echo "$out" | grep -c '^VIOLATION') violations :: $(echo "$out" | grep '^check' | tail -1)"
  echo "$out" | grep '^VIOLATION\|^INCONCLUSIVE' | head -4 | cut -c1-220
done
cd /; git -C /repo worktree remove --force $wt
# the runs above rewrote evidence files from a mutated tree: restore the committed ones
git -C "${VERIF_DIR:-/verif}" checkout -- evidence 2>/dev/null
