#!/bin/bash
# Builds the verifx engine inside /repo's module namespace through an overlay (nothing is written under /repo).
set -e
export GOFLAGS=-mod=mod GOPROXY=off
V="${VERIF_DIR:-$(cd "$(dirname "$0")" && pwd)}"
cd "$V"
mkdir -p .work bin
VDIR="$V" python3 - <<'PY'
import json,glob,os
v=os.environ['VDIR']
rep={}
for f in glob.glob(v+'/engine/*.go'):
    rep['/repo/cmd/zz_verifx/'+os.path.basename(f)]=f
json.dump({'Replace':rep},open(v+'/.work/engine_overlay.json','w'))
PY
cd /repo
go build -overlay "$V/.work/engine_overlay.json" -o "$V/bin/verifx" ./cmd/zz_verifx
