#!/bin/bash
# Builds the verifx engine inside /repo's module namespace through an overlay (nothing is written under /repo).
set -e
export GOFLAGS=-mod=mod GOPROXY=off
V="${VERIF_DIR:-$(cd "$(dirname "$0")" && pwd)}"
cd "$V"
mkdir -p .work bin
R="${VERIF_REPO:-/repo}"
VDIR="$V" RDIR="$R" python3 - <<'PY'
import json,glob,os
v=os.environ['VDIR']; r=os.environ['RDIR']
rep={}
for f in glob.glob(v+'/engine/*.go'):
    rep[r+'/cmd/zz_verifx/'+os.path.basename(f)]=f
json.dump({'Replace':rep},open(v+'/.work/engine_overlay.json','w'))
PY
cd "$R"
go build -overlay "$V/.work/engine_overlay.json" -o "$V/bin/verifx" ./cmd/zz_verifx
