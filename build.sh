#!/bin/bash
# Builds the verifx engine inside /repo's module namespace through an overlay (nothing is written under /repo).
set -e
export GOFLAGS=-mod=mod GOPROXY=off
cd /verif
mkdir -p .work bin
python3 - <<'PY'
import json,glob,os
rep={}
for f in glob.glob('/verif/engine/*.go'):
    rep['/repo/cmd/zz_verifx/'+os.path.basename(f)]=f
json.dump({'Replace':rep},open('/verif/.work/engine_overlay.json','w'))
PY
cd /repo
go build -overlay /verif/.work/engine_overlay.json -o /verif/bin/verifx ./cmd/zz_verifx
