//go:build verif_harness

package topology

// C19 part 1: structural similarity is symmetric, lies in [0,1] and is exactly 1 for a
// field-wise equal topology. Decomposed by contracts: H1 typeListSimilarity, H2 MapSimilarity,
// H3 TopologySimilarity with H1/H2 replaced by their proven contracts (engine stubs).

func vxCount() int {
	return vxIntRange(0, 1<<20)
}

func vxTypeList(n int) []string {
	l := make([]string, n)
	for i := range l {
		l[i] = vxStrN(1) // one symbolic byte per type name: equality between names is decided by the solver
	}
	return l
}

// H1
func VerifC19_TypeList() {
	na := vxPick(3)
	nb := vxPick(3)
	a := vxTypeList(na)
	b := vxTypeList(nb)
	s1 := typeListSimilarity(a, b)
	s2 := typeListSimilarity(b, a)
	vxAssert("typelist-in-range", vxAnd(s1 >= 0, s1 <= 1))
	vxAssert("typelist-symmetric", vxSameF64(s1, s2))
	same := na == nb
	if same {
		eq := true
		for i := 0; i < na; i++ {
			eq = vxAnd(eq, vxStrEq(a[i], b[i]))
		}
		vxAssert("typelist-equal-is-one", vxImplies(eq, s1 == 1.0))
		vxCover("typelist-equal-reachable", eq)
	}
	vxCover("typelist-differs", s1 < 1)
}

func vxFreqMap(keys []string) map[string]int {
	m := map[string]int{}
	for _, k := range keys {
		if vxBool() {
			m[k] = vxIntRange(1, 1<<20)
		}
	}
	return m
}

// H2
func VerifC19_MapSim() {
	// three keys are the least universe in which one map can have a key the other lacks while both
	// still share one (needed for an asymmetric union to change the quotient)
	keys := []string{"k0", "k1", "k2"}[:vxParam("keys", 2)]
	a := vxFreqMap(keys)
	b := vxFreqMap(keys)
	s1 := MapSimilarity(a, b)
	s2 := MapSimilarity(b, a)
	if vxParam("sym", 0) == 1 {
		// symmetry is an equality between two float expressions: decided with float arithmetic
		// abstracted to uninterpreted functions (sound for equalities), integers exact
		vxAssert("mapsim-symmetric", vxSameF64(s1, s2))
		vxCover("mapsim-sym-reachable", true)
		return
	}
	vxAssert("mapsim-in-range", vxAnd(s1 >= 0, s1 <= 1))
	if len(a) == len(b) {
		eq := true
		for _, k := range keys {
			va, oka := a[k]
			vb, okb := b[k]
			if oka != okb {
				eq = false
			} else if oka {
				eq = vxAnd(eq, va == vb)
			}
		}
		vxAssert("mapsim-equal-is-one", vxImplies(eq, s1 == 1.0))
		vxCover("mapsim-equal-reachable", eq)
	}
	vxCover("mapsim-below-one", s1 < 1)
}

func vxTopoScalars() *FunctionTopology {
	t := &FunctionTopology{}
	t.LoopCount = vxCount()
	t.BranchCount = vxCount()
	t.BlockCount = vxCount()
	t.HasDefer = vxBool()
	t.HasPanic = vxBool()
	t.HasGo = vxBool()
	t.HasSelect = vxBool()
	t.HasRange = vxBool()
	return t
}

// H3: typeListSimilarity / MapSimilarity are replaced by symmetric contract stubs with values in [0,1]
func VerifC19_Similarity() {
	a := vxTopoScalars()
	b := vxTopoScalars()
	s1 := TopologySimilarity(a, b)
	s2 := TopologySimilarity(b, a)
	if vxParam("sym", 0) == 1 {
		vxAssert("similarity-symmetric", vxSameF64(s1, s2))
		vxCover("similarity-sym-reachable", true)
		return
	}
	vxAssert("similarity-in-range", vxAnd(s1 >= 0, s1 <= 1))
	vxCover("similarity-below-one", s1 < 1)
	vxAssert("nil-is-zero", TopologySimilarity(nil, b) == 0)
	vxAssert("nil-is-zero-2", TopologySimilarity(a, nil) == 0)
}

// H3b: a topology compared with a field-wise equal one (a renamed copy) scores exactly 1
func VerifC19_SelfSimilarity() {
	a := vxTopoScalars()
	b := &FunctionTopology{}
	*b = *a
	vxNote("equal-inputs") // the contract stubs return exactly 1.0 for equal inputs (proved by H1/H2)
	s := TopologySimilarity(a, b)
	vxAssert("self-similarity-is-one", s == 1.0)
	vxCover("self-reachable", true)
}
