//go:build verif_harness

package diff

import (
	"os"
	"strings"
	"syscall"
)

// ---- native side of the environment stub -------------------------------------------------
// Symbolically the engine intercepts vxSetEnviron (os.Environ then returns exactly `env`).
// Natively the replay re-executes the test binary with envp set to exactly the model's
// entries (syscall.ForkExec: no de-duplication, entries without '=' preserved).

func vxSetEnviron(env []string) {
	for _, a := range os.Args {
		if a == "vxchild" {
			cur := os.Environ()
			if len(cur) != len(env) {
				panic(vxStop{"unrealisable-environment"})
			}
			for i := range cur {
				if cur[i] != env[i] {
					panic(vxStop{"unrealisable-environment"})
				}
			}
			return
		}
	}
	argv := []string{os.Args[0], "-test.run=^TestVerifReplay$", "-test.v", "vxchild", vxReplayPath}
	pid, err := syscall.ForkExec(os.Args[0], argv, &syscall.ProcAttr{Env: env, Files: []uintptr{0, 1, 2}})
	if err != nil {
		panic(vxStop{"forkexec-failed"})
	}
	var ws syscall.WaitStatus
	syscall.Wait4(pid, &ws, 0, nil)
	panic(vxStop{"child-done"})
}

func vxFoldHasPrefix(s, p string) bool {
	return len(s) >= len(p) && strings.EqualFold(s[:len(p)], p)
}

func vxTail(s string, k int) string {
	if len(s) < k {
		return ""
	}
	return s[k:]
}

func vxPrintable(s string) bool {
	for i := 0; i < len(s); i++ {
		if s[i] == 0 || s[i] >= 0x80 {
			return false
		}
	}
	return len(s) > 0
}

// ---- the specification, written from the property statement -----------------------------

type vxGuard struct{ K, V string }

func vxGuardedKeys() []vxGuard {
	return []vxGuard{
		{"CGO_ENABLED", "0"},       // cgo off
		{"GOPROXY", "off"},         // module proxy off
		{"GOFLAGS", "-mod=readonly"}, // read-only module mode
		{"GOWORK", "off"},          // workspace off
		{"GOTOOLCHAIN", "local"},   // local toolchain
	}
}

// keys the implementation additionally filters; an entry defining one of them is "related"
// (so it is not required to be passed through) but the property does not fix their value.
func vxAlsoRelated() []string { return []string{"GONOSUMDB", "GO111MODULE"} }

// VerifC15_HardenedEnv: for every ambient environment of `entries` entries of at most `maxlen`
// ASCII bytes, GetHardenedEnv resolves the guarded keys to the hardened values under both the
// exact-case (Unix) and the case-insensitive (Windows) reading of "effective value", and
// passes every unrelated entry through unchanged.
func VerifC15_HardenedEnv() {
	n := vxParam("entries", 2)
	maxLen := vxParam("maxlen", 12)
	env := make([]string, n)
	for i := 0; i < n; i++ {
		e := vxStr(maxLen)
		vxAssume(vxPrintable(e))
		env[i] = e
	}
	vxSetEnviron(env)

	out := GetHardenedEnv()

	vxCover("returns", true)
	for _, g := range vxGuardedKeys() {
		pre := g.K + "="
		anyExact := false
		okExact := true
		okFold := true
		okFirst := true
		for i := range out {
			earlierFold := false
			for j := 0; j < i; j++ {
				earlierFold = vxOr(earlierFold, vxFoldHasPrefix(out[j], pre))
			}
			// a lookup that returns the FIRST case-insensitive match (Windows API semantics) must
			// see the hardened value as well: no differently-cased earlier entry may shadow it
			okFirst = vxAnd(okFirst, vxImplies(vxAnd(vxFoldHasPrefix(out[i], pre), !earlierFold), vxStrEq(vxTail(out[i], len(pre)), g.V)))
		}
		for i := range out {
			laterExact := false
			laterFold := false
			for j := i + 1; j < len(out); j++ {
				laterExact = vxOr(laterExact, vxHasPrefix(out[j], pre))
				laterFold = vxOr(laterFold, vxFoldHasPrefix(out[j], pre))
			}
			defExact := vxHasPrefix(out[i], pre)
			defFold := vxFoldHasPrefix(out[i], pre)
			anyExact = vxOr(anyExact, defExact)
			// last exact-case definition carries the hardened value
			okExact = vxAnd(okExact, vxImplies(vxAnd(defExact, !laterExact), vxStrEq(vxTail(out[i], len(pre)), g.V)))
			// last definition under case-insensitive keys carries the hardened value
			okFold = vxAnd(okFold, vxImplies(vxAnd(defFold, !laterFold), vxStrEq(vxTail(out[i], len(pre)), g.V)))
		}
		vxAssert("defined:"+g.K, anyExact)
		vxAssert("effective-exact:"+g.K, okExact)
		vxAssert("effective-fold:"+g.K, okFold)
		vxAssert("effective-first-match:"+g.K, okFirst)
	}

	// pass-through: every unrelated input entry is present, unchanged, in the output
	related := func(e string) bool {
		r := false
		for _, g := range vxGuardedKeys() {
			r = vxOr(r, vxFoldHasPrefix(e, g.K+"="))
		}
		for _, k := range vxAlsoRelated() {
			r = vxOr(r, vxFoldHasPrefix(e, k+"="))
		}
		return r
	}
	pass := true
	for i := range env {
		present := false
		for j := range out {
			present = vxOr(present, vxStrEq(out[j], env[i]))
		}
		pass = vxAnd(pass, vxImplies(!related(env[i]), present))
	}
	vxAssert("unrelated-passed-through", pass)

	// nothing invented: every output entry is an input entry or defines a guarded/related key
	noInvent := true
	for j := range out {
		fromIn := false
		for i := range env {
			fromIn = vxOr(fromIn, vxStrEq(out[j], env[i]))
		}
		noInvent = vxAnd(noInvent, vxOr(fromIn, related(out[j])))
	}
	vxAssert("no-invented-entries", noInvent)
	vxCover("an-entry-is-filtered", len(out) < len(env)+7)
	vxCover("an-entry-is-kept", len(out) > 7)
}

// ---- call-site clause ("used for every packages.Load") -------------------------------------
// Symbolically the engine replaces packages.Load by a recorder of Config.Env that always fails;
// natively the real loader cannot be observed, so counterexamples of this harness are confirmed
// by concrete re-execution of the SSA (EngineReplay).

func vxLoadCalls() int         { panic(vxStop{"engine-only"}) }
func vxLoadEnv(k int) []string { panic(vxStop{"engine-only"}) }

// VerifC15_LoadSite: whatever the ambient environment, every packages.Load issued by
// loadPackagesFromSource receives exactly the environment GetHardenedEnv computes (which
// VerifC15_HardenedEnv shows to be hardened), and the loader is actually consulted.
func VerifC15_LoadSite() {
	n := vxParam("entries", 1)
	maxLen := vxParam("maxlen", 13)
	env := make([]string, n)
	for i := 0; i < n; i++ {
		e := vxStr(maxLen)
		vxAssume(vxPrintable(e))
		env[i] = e
	}
	vxSetEnviron(env)
	want := GetHardenedEnv()

	_, err := loadPackagesFromSource("/a/x.go", "package x")

	vxCover("loader-failure-propagates", err != nil)
	calls := vxLoadCalls()
	vxAssert("loader-consulted", calls >= 1)
	for k := 0; k < calls; k++ {
		got := vxLoadEnv(k)
		vxAssert("env-length", len(got) == len(want))
		same := true
		for i := 0; i < len(got) && i < len(want); i++ {
			same = vxAnd(same, vxStrEq(got[i], want[i]))
		}
		vxAssert("env-is-hardened-env", same)
	}
}
