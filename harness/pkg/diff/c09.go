//go:build verif_harness

package diff

import (
	"github.com/BlackVectorOps/semantic_firewall/v3/pkg/analysis/topology"
	"golang.org/x/tools/go/ssa"
)

// The matcher is executed symbolically with the two expensive analyses replaced by stubs:
// topology.ExtractTopology returns the topology the harness bound to the function, and
// topology.TopologySimilarity an arbitrary value in [0,1] per ordered pair (the same value every
// time the same pair is asked). Go's map iteration order is a solver variable.

func vxFn(i int) *ssa.Function                                    { return &ssa.Function{} }
func vxBindTopo(fn *ssa.Function, t *topology.FunctionTopology) {}

type vxFuncs struct {
	res   []FingerprintResult
	topos []*topology.FunctionTopology
}

func vxMakeSide(names []string, base int) vxFuncs {
	var out vxFuncs
	for i, n := range names {
		fn := vxFn(base + i)
		t := &topology.FunctionTopology{FuzzyHash: vxSelStr([]string{"b0", "b1"}, vxIntRange(0, 1))}
		vxBindTopo(fn, t)
		out.res = append(out.res, FingerprintResult{FunctionName: n, Fingerprint: "fp", fn: fn})
		out.topos = append(out.topos, t)
	}
	return out
}

func vxScenario() (vxFuncs, vxFuncs, []string, []string) {
	nOld := 1 + vxPick(vxParam("maxfuncs", 2))
	nNew := 1 + vxPick(vxParam("maxfuncs", 2))
	oldNames := []string{"p.f0", "p.f1", "p.f2"}[:nOld]
	// each new function either keeps the name of a distinct old function or has a fresh name
	var newNames []string
	used := map[string]bool{}
	for j := 0; j < nNew; j++ {
		name := []string{"p.g0", "p.g1", "p.g2"}[j]
		if k := vxPick(nOld + 1); k < nOld && !used[oldNames[k]] {
			name = oldNames[k]
		}
		used[name] = true
		newNames = append(newNames, name)
	}
	return vxMakeSide(oldNames, 0), vxMakeSide(newNames, 10), oldNames, newNames
}

func vxIndexOf(names []string, n string) int {
	for i, x := range names {
		if x == n {
			return i
		}
	}
	return -1
}

// VerifC09_Matcher: every old and new function is accounted for exactly once; name-identical
// functions are paired with each other; other pairs share a bucket, reach the threshold, and no
// eligible pair is left unmatched (C09 i-iii, C19 matcher clauses).
func VerifC09_Matcher() {
	old, nw, oldNames, newNames := vxScenario()
	thr := 0.6
	matched, added, removed := MatchFunctionsByTopology(old.res, nw.res, thr)

	oldSeen := make([]int, len(oldNames))
	newSeen := make([]int, len(newNames))
	pairOK := true
	for _, m := range matched {
		i, j := vxIndexOf(oldNames, m.OldResult.FunctionName), vxIndexOf(newNames, m.NewResult.FunctionName)
		if i < 0 || j < 0 {
			vxAssert("matched-entries-come-from-the-inputs", false)
			return
		}
		oldSeen[i]++
		newSeen[j]++
		sameName := oldNames[i] == newNames[j]
		if sameName {
			pairOK = vxAnd(pairOK, m.ByName)
		} else {
			sim := topology.TopologySimilarity(old.topos[i], nw.topos[j])
			pairOK = vxAnd(pairOK, vxAnd(!m.ByName, vxAnd(sim >= thr, vxStrEq(old.topos[i].FuzzyHash, nw.topos[j].FuzzyHash))))
			pairOK = vxAnd(pairOK, vxSameF64(m.Similarity, sim))
		}
	}
	for _, r := range removed {
		i := vxIndexOf(oldNames, r.FunctionName)
		if i < 0 {
			vxAssert("removed-entries-come-from-the-old-file", false)
			return
		}
		oldSeen[i]++
	}
	for _, r := range added {
		j := vxIndexOf(newNames, r.FunctionName)
		if j < 0 {
			vxAssert("added-entries-come-from-the-new-file", false)
			return
		}
		newSeen[j]++
	}
	once := true
	for _, c := range oldSeen {
		once = once && c == 1
	}
	for _, c := range newSeen {
		once = once && c == 1
	}
	vxAssert("every-function-in-exactly-one-entry", once)
	vxAssert("pairs-are-justified", pairOK)
	// name-identical functions are always paired with each other
	nameOK := true
	for i, n := range oldNames {
		if j := vxIndexOf(newNames, n); j >= 0 {
			hit := false
			for _, m := range matched {
				if m.OldResult.FunctionName == n && m.NewResult.FunctionName == newNames[j] {
					hit = true
				}
			}
			nameOK = nameOK && hit
			_ = i
		}
	}
	vxAssert("name-identical-functions-paired", nameOK)
	// maximality: no eligible (same bucket, similarity >= threshold) pair is left on the table
	maximal := true
	for _, r := range removed {
		i := vxIndexOf(oldNames, r.FunctionName)
		for _, a := range added {
			j := vxIndexOf(newNames, a.FunctionName)
			sim := topology.TopologySimilarity(old.topos[i], nw.topos[j])
			eligible := vxAnd(sim >= thr, vxStrEq(old.topos[i].FuzzyHash, nw.topos[j].FuzzyHash))
			maximal = vxAnd(maximal, !eligible)
		}
	}
	vxAssert("no-eligible-rename-left-unmatched", maximal)
	vxCover("a-rename-is-reported", len(matched) > 0 && !matched[len(matched)-1].ByName)
	vxCover("something-added-and-removed", len(added) > 0 && len(removed) > 0)
}

// VerifC10_MatcherOrder: the matcher's output does not depend on Go's map iteration order
// (two executions with independent, solver-chosen orders give the same sequences).
func VerifC10_MatcherOrder() {
	old, nw, _, _ := vxScenario()
	m1, a1, r1 := MatchFunctionsByTopology(old.res, nw.res, 0.6)
	m2, a2, r2 := MatchFunctionsByTopology(old.res, nw.res, 0.6)
	same := len(m1) == len(m2) && len(a1) == len(a2) && len(r1) == len(r2)
	if same {
		for i := range m1 {
			same = same && m1[i].OldResult.FunctionName == m2[i].OldResult.FunctionName && m1[i].NewResult.FunctionName == m2[i].NewResult.FunctionName
		}
		for i := range a1 {
			same = same && a1[i].FunctionName == a2[i].FunctionName
		}
		for i := range r1 {
			same = same && r1[i].FunctionName == r2[i].FunctionName
		}
	}
	vxAssert("matcher-output-independent-of-map-order", same)
	vxCover("two-matches", len(m1) >= 2)
}
