//go:build verif_harness

package pebbledb

import (
	"github.com/BlackVectorOps/semantic_firewall/v3/pkg/analysis/topology"
	"github.com/BlackVectorOps/semantic_firewall/v3/pkg/detection"
)

type vxAlert struct {
	id   string
	conf float64
}

// what an atomic scan of the state `x` must report for `topo` (brute force over the live set)
func vxAlertsOf(x *vxLive, topo *topology.FunctionTopology, k int, thr float64) []vxAlert {
	var out []vxAlert
	th, fh := vxTopoHash(k), vxFuzzyHash(k)
	for _, sg := range x.sigs {
		hit := sg.TopologyHash == th || (sg.FuzzyHash != "" && sg.FuzzyHash == fh)
		tol := sg.EntropyTolerance
		if tol == 0 {
			tol = 0.5
		}
		d := sg.EntropyScore - topo.EntropyScore
		if d < 0 {
			d = -d
		}
		if hit && d <= tol {
			r := detection.MatchSignature(topo, "f", sg, 0.5)
			if r.Confidence >= thr {
				out = append(out, vxAlert{sg.ID, r.Confidence})
			}
		}
	}
	return out
}

func vxSameAlerts(res []detection.ScanResult, want []vxAlert) bool {
	if len(res) != len(want) {
		return false
	}
	ok := true
	for _, w := range want {
		in := false
		for _, r := range res {
			in = vxOr(in, vxAnd(vxStrEq(r.SignatureID, w.id), vxSameF64(r.Confidence, w.conf)))
		}
		ok = vxAnd(ok, in)
	}
	return ok
}

// VerifC11_ScanDuringWrite: a scan interleaved with one writer operation reports exactly what an
// atomic scan of the state before, or of the state after, the writer would report.
func VerifC11_ScanDuringWrite() {
	s := vxNewStore()
	v1 := vxSigLite("A")
	v1.NodeCount = 1
	v2 := vxSigLite("A")
	v2.NodeCount = 2
	before := &vxLive{}
	{
		sg := v1
		if err := s.AddSignature(&sg); err != nil {
			vxAssert("add-succeeds", false)
		}
		before.put(v1)
	}
	after := vxCopyLive(before)
	wkind := vxPick(4)
	switch wkind {
	case 0, 2:
		after.put(v2)
	case 1:
		after.del("A")
	}
	vxInterfere(func() {
		switch wkind {
		case 0:
			sg := v2
			s.AddSignature(&sg)
		case 1:
			s.DeleteSignature("A")
		case 2:
			s.DeleteSignature("A")
			sg := v2
			s.AddSignature(&sg)
		default:
			s.RebuildIndexes()
		}
	})
	k := vxPick(2)
	topo := vxPoolTopo(k)
	mode := vxParam("mode", 0)
	var res []detection.ScanResult
	if mode == 0 {
		r, err := s.ScanTopology(topo, "f")
		vxAssert("scan-no-error", err == nil)
		res = r
	} else {
		r, err := s.ScanTopologyExact(topo, "f")
		vxAssert("scan-no-error", err == nil)
		if r != nil {
			res = []detection.ScanResult{*r}
		}
	}
	ran := vxInterfered()
	wb := vxAlertsOf(before, topo, k, 0.75)
	okBefore := vxSameAlerts(res, wb)
	if mode == 1 {
		// exact mode only walks the exact-hash index and reports the single best hit
		okBefore = vxExactOK(res, before, topo, k)
	}
	if !ran {
		vxAssert("undisturbed-scan-is-atomic-scan", okBefore)
		return
	}
	vxCover("writer-ran-during-scan", true)
	wa := vxAlertsOf(after, topo, k, 0.75)
	okAfter := vxSameAlerts(res, wa)
	if mode == 1 {
		okAfter = vxExactOK(res, after, topo, k)
	}
	vxAssert("scan-sees-one-committed-version", vxOr(okBefore, okAfter))
}

// VerifC11_ScanInsideWrite: the dual schedule - a whole scan runs between any two of the writer's
// own commits (or before the first). If the writer's update is torn over several commits, the
// scan pairs an index entry of one version with the record of the other.
func VerifC11_ScanInsideWrite() {
	s := vxNewStore()
	v1 := vxSigLite("A")
	v1.NodeCount = 1
	v2 := vxSigLite("A")
	v2.NodeCount = 2
	before := &vxLive{}
	{
		sg := v1
		if err := s.AddSignature(&sg); err != nil {
			vxAssert("add-succeeds", false)
		}
		before.put(v1)
	}
	after := vxCopyLive(before)
	wkind := vxPick(3)
	switch wkind {
	case 0:
		after.put(v2)
	case 1:
		after.del("A")
	}
	k := vxPick(2)
	topo := vxPoolTopo(k)
	mode := vxParam("mode", 0)
	var res []detection.ScanResult
	var serr error
	vxInterfere(func() {
		if mode == 0 {
			res, serr = s.ScanTopology(topo, "f")
		} else {
			r, err := s.ScanTopologyExact(topo, "f")
			serr = err
			if r != nil {
				res = []detection.ScanResult{*r}
			}
		}
	})
	switch wkind {
	case 0:
		sg := v2
		s.AddSignature(&sg)
	case 1:
		s.DeleteSignature("A")
	default:
		s.RebuildIndexes()
	}
	if !vxInterfered() {
		return
	}
	vxCover("scan-ran-inside-writer", true)
	vxAssert("scan-no-error", serr == nil)
	okBefore := vxSameAlerts(res, vxAlertsOf(before, topo, k, 0.75))
	okAfter := vxSameAlerts(res, vxAlertsOf(after, topo, k, 0.75))
	if mode == 1 {
		okBefore = vxExactOK(res, before, topo, k)
		okAfter = vxExactOK(res, after, topo, k)
	}
	if wkind == 2 {
		// a rebuild commits the removal of all index entries before it re-derives them (documented;
		// the crash-safety of that protocol is C07's subject): the committed state in between has the
		// records but no index entries, and a scan of that state correctly reports nothing
		okAfter = vxOr(okAfter, len(res) == 0)
	}
	vxAssert("scan-sees-one-committed-version", vxOr(okBefore, okAfter))
}

func vxExactOK(res []detection.ScanResult, x *vxLive, topo *topology.FunctionTopology, k int) bool {
	th := vxTopoHash(k)
	var want []vxAlert
	for _, sg := range x.sigs {
		tol := sg.EntropyTolerance
		if tol == 0 {
			tol = 0.5
		}
		d := sg.EntropyScore - topo.EntropyScore
		if d < 0 {
			d = -d
		}
		if sg.TopologyHash == th && d <= tol {
			r := detection.MatchSignature(topo, "f", sg, 0.5)
			if r.Confidence >= 0.75 {
				want = append(want, vxAlert{sg.ID, r.Confidence})
			}
		}
	}
	return vxSameAlerts(res, want) // at most one signature in this bound, so "best" is "the" hit
}

// a lighter signature for the interleaving harness: hashes and entropy solver-chosen, tolerance fixed
func vxSigLite(id string) detection.Signature {
	s := detection.Signature{ID: id, Name: "n", Severity: "HIGH", EntropyTolerance: 0.5}
	s.TopologyHash = vxSelStr([]string{vxTopoHash(0), vxTopoHash(1)}, vxIntRange(0, 1))
	s.FuzzyHash = vxSelStr([]string{"", vxFuzzyHash(0)}, vxIntRange(0, 1))
	s.EntropyScore = vxSelF64([]float64{0, 0.5, 5}, vxIntRange(0, 2))
	return s
}
