//go:build verif_harness

package pebbledb

import (
	"os"
	"path/filepath"
	"strings"
)

// ---- native side of the file-system scenario ----------------------------------------------
// Symbolically the engine answers EvalSymlinks/Stat/Getwd from the table built with vxFSEntry /
// vxFSDefault / vxSetCwd. Natively the same calls build the scenario on the real file system.

var vxScratchDir string
var vxOldWd string

// vxScratch: symbolically the constant "/vx/s"; natively a fresh real directory.
func vxScratch() string {
	if vxScratchDir == "" {
		d, err := os.MkdirTemp("", "vxc20")
		if err != nil {
			panic(vxStop{"no-scratch"})
		}
		if r, err := filepath.EvalSymlinks(d); err == nil {
			d = r
		}
		vxScratchDir = d
	}
	return vxScratchDir
}

func vxCleanupScratch() {
	if vxOldWd != "" {
		os.Chdir(vxOldWd)
		vxOldWd = ""
	}
	if vxScratchDir != "" {
		os.RemoveAll(vxScratchDir)
		vxScratchDir = ""
	}
}

func vxMkSymlink(link, target string) {
	if target != link {
		// the scenarios say the link points at an existing directory whose own spelling is canonical;
		// a solver-chosen target that does not exist here (or is itself a symlink) cannot be realised
		if st, err := os.Stat(target); err != nil || !st.IsDir() {
			panic(vxStop{"unrealisable-target"})
		}
		if r, err := filepath.EvalSymlinks(target); err != nil || r != target {
			panic(vxStop{"unrealisable-target"})
		}
	}
	if err := os.Symlink(target, link); err != nil {
		panic(vxStop{"unrealisable-symlink"})
	}
}

func vxFSDefault(kind int)                         {}
func vxFSEntry(path string, kind int, target string) {}
func vxPrefer(c bool)                              {}
func vxSetCwd(dir string) {
	if vxOldWd == "" {
		vxOldWd, _ = os.Getwd()
	}
	if err := os.Chdir(dir); err != nil {
		panic(vxStop{"unrealisable-cwd"})
	}
}

func vxCleanAbs(s string) bool { return filepath.IsAbs(s) && filepath.Clean(s) == s }

func vxPathBytes(s string) bool {
	for i := 0; i < len(s); i++ {
		c := s[i]
		if !(c >= 'a' && c <= 'z' || c >= '0' && c <= '9' || c == '/' || c == '.' || c == '-' || c == '_') {
			return false
		}
	}
	return true
}

func vxSimpleName(s string) bool {
	if len(s) == 0 {
		return false
	}
	for i := 0; i < len(s); i++ {
		c := s[i]
		if !(c >= 'a' && c <= 'z' || c >= '0' && c <= '9' || c == '-' || c == '_') {
			return false
		}
	}
	return true
}

func vxContains(s, sub string) bool { return strings.Contains(s, sub) }
func vxDirOf(s string) string       { return filepath.Dir(s) }
func vxJoin2(a, b string) string    { return filepath.Join(a, b) }

// ---- specification ------------------------------------------------------------------------

// the protected system directories (kept here independently of the code under test)
func vxProtectedDirs() []string {
	return []string{"/etc", "/root", "/usr", "/bin", "/sbin", "/boot"}
}

func vxProtected(loc string) bool {
	r := false
	for _, d := range vxProtectedDirs() {
		r = vxOr(r, vxOr(vxStrEq(loc, d), vxHasPrefix(loc, d+"/")))
	}
	return r
}

// an arbitrary clean absolute path; counterexamples that name an existing directory are preferred
// because only those can be realised as a symlink target by the native replay
func vxTarget(maxLen int) string {
	r := vxConcretizeLen(vxStr(maxLen)) // case split on the length: every later string operation has a concrete shape
	vxAssume(vxAnd(vxCleanAbs(r), vxPathBytes(r)))
	pref := false
	for _, d := range []string{"/etc", "/usr", "/boot", "/root", "/etc/ssl", "/usr/lib", "/var", "/usr/bin"} {
		pref = vxOr(pref, vxStrEq(r, d))
	}
	vxPrefer(pref)
	return r
}

func vxName() string {
	n := vxConcretizeLen(vxStr(3))
	vxAssume(vxSimpleName(n))
	return n
}

// VerifC20_PathGuard: whatever the spelling resolves to, a database whose true location lies
// inside a protected directory is refused, and one outside is not refused on these grounds.
func VerifC20_PathGuard() {
	defer vxCleanupScratch()
	fam := vxPick(10)
	ro := vxBool()
	maxLen := vxParam("maxlen", 10)
	S := vxScratch()
	vxFSEntry("/", 0, "/")
	var dbPath, loc string
	hasLoc := true
	switch fam {
	case 0: // absolute path of a new database; nothing on the way exists, no symlinks
		q := vxConcretizeLen(vxStr(maxLen))
		vxAssume(vxAnd(vxAnd(vxCleanAbs(q), vxPathBytes(q)), !vxStrEq(q, "/")))
		vxFSDefault(1)
		dbPath, loc = q, q
	case 1: // absolute path of an existing database, no symlinks
		q := vxConcretizeLen(vxStr(maxLen))
		vxAssume(vxAnd(vxAnd(vxCleanAbs(q), vxPathBytes(q)), !vxStrEq(q, "/")))
		vxFSDefault(3)
		dbPath, loc = q, q
	case 2: // the path itself is a symlink to an existing directory R
		R := vxTarget(maxLen)
		vxMkSymlink(S+"/l", R)
		vxFSEntry(S+"/l", 0, R)
		vxFSEntry(S, 0, S)
		dbPath, loc = S+"/l", R
	case 3: // new database under a symlinked parent directory
		R := vxTarget(maxLen)
		rest := vxName()
		vxMkSymlink(S+"/l", R)
		vxFSEntry(S+"/l", 0, R)
		vxFSEntry(S+"/l/"+rest, 1, "")
		dbPath, loc = S+"/l/"+rest, vxJoin2(R, rest)
	case 4: // new database spelled with ".." after a symlinked directory
		R := vxTarget(maxLen)
		rest := vxName()
		vxMkSymlink(S+"/l", R)
		vxFSEntry(S+"/l", 0, R)
		vxFSEntry(S+"/l/..", 0, vxDirOf(R))
		vxFSEntry(S+"/l/../"+rest, 1, "")
		vxFSEntry(S+"/"+rest, 1, "")
		vxFSEntry(S, 0, S)
		dbPath, loc = S+"/l/../"+rest, vxJoin2(vxDirOf(R), rest)
	case 5: // relative spelling of a new database under a symlinked directory
		R := vxTarget(maxLen)
		rest := vxName()
		vxMkSymlink(S+"/l", R)
		vxSetCwd(S)
		vxFSEntry(S+"/l", 0, R)
		vxFSEntry("l", 0, R)
		vxFSEntry(S+"/l/"+rest, 1, "")
		vxFSEntry("l/"+rest, 1, "")
		dbPath, loc = "l/"+rest, vxJoin2(R, rest)
	case 6: // relative spelling of an existing database in the working directory C
		C := vxTarget(maxLen)
		name := vxConcretizeLen(vxStr(5))
		vxAssume(vxSimpleName(name))
		vxPrefer(vxAnd(vxStrEq(C, "/etc"), vxStrEq(name, "hosts")))
		vxSetCwd(C)
		full := vxJoin2(C, name)
		vxFSEntry(name, 3, "")
		vxFSEntry(full, 0, full)
		dbPath, loc = name, full
	case 7: // absolute path whose first component does not exist, followed by ".." and the real location
		var tail string
		if vxParam("fam7sym", 0) == 1 {
			tl := maxLen
			if tl > 7 {
				tl = 7
			}
			tail = vxConcretizeLen(vxStr(tl))
			vxAssume(vxAnd(vxCleanAbs(tail), vxPathBytes(tail)))
			vxAssume(!vxStrEq(tail, "/"))
		} else {
			pool := []string{"/boot/x", "/etc/x", "/usr/lib/x", "/var/x", "/bootx/a", "/sbin"}
			tail = pool[vxPick(len(pool))]
		}
		vxFSDefault(1)
		dbPath, loc = "/vxm/.."+tail, tail
	case 8: // relative spelling with ".." right after a symlinked directory (lexical cleaning would cancel the symlink)
		R := vxTarget(maxLen)
		rest := vxName()
		vxMkSymlink(S+"/l", R)
		vxSetCwd(S)
		vxFSEntry(S+"/l", 0, R)
		vxFSEntry("l", 0, R)
		vxFSEntry(S+"/l/..", 0, vxDirOf(R))
		vxFSEntry("l/..", 0, vxDirOf(R))
		vxFSEntry(S+"/l/../"+rest, 1, "")
		vxFSEntry("l/../"+rest, 1, "")
		vxFSEntry(S+"/"+rest, 1, "")
		vxFSEntry(rest, 1, "")
		vxFSEntry(S, 0, S)
		dbPath, loc = "l/../"+rest, vxJoin2(vxDirOf(R), rest)
	default: // resolution fails for a reason other than non-existence (symlink loop)
		dbPath = S + "/loop"
		vxMkSymlink(dbPath, dbPath)
		vxFSEntry(dbPath, 2, "")
		hasLoc = false
	}
	opts := PebbleScannerOptions{ReadOnly: ro}
	if !vxSymbolic() {
		opts.ReadOnly = true // native replays never create a database anywhere
	}
	sc, err := NewPebbleScanner(dbPath, opts)
	if sc != nil {
		sc.Close()
	}
	refused := false
	if err != nil {
		refused = vxContains(err.Error(), "security violation")
	}
	if hasLoc {
		prot := vxProtected(loc)
		vxCover("protected-location-reachable", prot)
		vxCover("unprotected-location-reachable", !prot)
		// one witness per scenario family and outcome: the thorough tier re-runs each on the real file system
		famName := []string{"new-abs", "existing-abs", "symlink-leaf", "symlinked-parent", "dotdot-after-symlink", "relative-new", "relative-existing", "missing-then-dotdot", "relative-dotdot-after-symlink", "resolution-error"}[fam]
		vxCover("protected:"+famName, prot)
		vxCover("unprotected:"+famName, !prot)
		vxAssert("protected-location-refused", vxImplies(prot, refused))
		vxAssert("unprotected-location-not-refused", vxImplies(!prot, !refused))
	} else {
		vxAssert("unresolvable-path-not-opened", err != nil)
	}
}
