//go:build verif_harness

package pebbledb

import (
	"encoding/json"
	"os"
	"strconv"

	"github.com/BlackVectorOps/semantic_firewall/v3/pkg/detection"
)

// ---- C18, Pebble side -------------------------------------------------------------------------

// VerifC18_PebbleAddGet: after any history of single and batch adds, every ID that was added is
// fetched back with the content of the last signature added under it.
func VerifC18_PebbleAddGet() {
	ids := []string{"A", "B"}
	s := vxNewStore()
	live := &vxLive{}
	nops := vxParam("ops", 2)
	for op := 0; op < nops; op++ {
		if vxBool() {
			sig := vxSig(ids[vxPick(2)])
			cp := sig
			vxAssert("add-succeeds", s.AddSignature(&sig) == nil)
			live.put(cp)
		} else {
			n := 1 + vxPick(2)
			var batch []*detection.Signature
			var cps []detection.Signature
			for i := 0; i < n; i++ {
				sig := vxSig(ids[vxPick(2)])
				cps = append(cps, sig)
				batch = append(batch, &sig)
			}
			vxAssert("batch-add-succeeds", s.AddSignatures(batch) == nil)
			for i := range cps {
				live.put(cps[i])
			}
		}
	}
	for _, id := range ids {
		want := live.get(id)
		got, err := s.GetSignature(id)
		if want != nil {
			vxAssert("added-signature-is-found", err == nil && got != nil)
			if err == nil && got != nil {
				vxAssert("found-signature-is-the-last-added", vxSigSame(got, want))
			}
			vxCover("lookup-after-add", true)
		} else {
			vxAssert("never-added-is-not-found", err != nil)
		}
	}
}

// ---- the JSON document, described token by token ------------------------------------------------
// Symbolically these are engine primitives feeding a token-level model of json.Decoder
// (engine/jsonstream.go). Natively they render the same tokens into a real file, so that a replay
// runs the real decoder on the real bytes.

type vxJTok struct {
	kind string
	text string
}

var vxJDoc []vxJTok

func vxJSONReset()          { vxJDoc = nil }
func vxJSONDelim(d string)  { vxJDoc = append(vxJDoc, vxJTok{d, d}) }
func vxJSONKey(name string) { vxJDoc = append(vxJDoc, vxJTok{"key", strconv.Quote(name)}) }
func vxJSONBad()            { vxJDoc = append(vxJDoc, vxJTok{"bad", `"bad"`}) }
func vxJSONVal()            { vxJDoc = append(vxJDoc, vxJTok{"val", `"v"`}) }
func vxJSONLen() int        { return len(vxJDoc) }
func vxJSONSig(sig detection.Signature) {
	b, err := json.Marshal(sig)
	if err != nil {
		panic(vxStop{"cannot-marshal-signature"})
	}
	vxJDoc = append(vxJDoc, vxJTok{"sig", string(b)})
}

func vxJSONWrite(cut int, mid bool) string {
	out := ""
	needComma := false
	for i, t := range vxJDoc {
		if i > cut || (i == cut && !mid) {
			break
		}
		sep, body := "", t.text
		switch t.kind {
		case "{", "[":
			if needComma {
				sep = ","
			}
			needComma = false
		case "}", "]":
			needComma = true
		case "key":
			if needComma {
				sep = ","
			}
			body += ":"
			needComma = false
		default:
			if needComma {
				sep = ","
			}
			needComma = true
		}
		if i == cut {
			// a partial token: only values and keys can be cut in the middle
			if t.kind == "{" || t.kind == "[" || t.kind == "}" || t.kind == "]" {
				break
			}
			h := len(t.text) / 2
			if h < 1 {
				h = 1
			}
			out += sep + t.text[:h]
			break
		}
		out += sep + body
	}
	f, err := os.CreateTemp("", "vx-input-*.json")
	if err != nil {
		panic(vxStop{"cannot-create-input"})
	}
	f.WriteString(out)
	f.Close()
	return f.Name()
}

func vxOutPath() string {
	f, err := os.CreateTemp("", "vx-export-*.json")
	if err != nil {
		panic(vxStop{"cannot-create-output"})
	}
	f.Close()
	return f.Name()
}

var vxLastOut string

func vxExported() []detection.Signature {
	data, err := os.ReadFile(vxLastOut)
	if err != nil {
		panic(vxStop{"cannot-read-export"})
	}
	var doc struct {
		Signatures []detection.Signature `json:"signatures"`
	}
	if json.Unmarshal(data, &doc) != nil {
		panic(vxStop{"export-is-not-json"})
	}
	return doc.Signatures
}

// VerifC18_Migrate: a JSON signature file - complete, truncated at any token boundary or inside
// any token, or carrying a wrong-typed element - is migrated into the store. A file whose
// signatures array is not completely present, or that holds a malformed element, must be reported
// as an error; a reported success means every signature of the file is stored (last one wins) and
// counted; a complete well-formed file succeeds; exporting afterwards lists exactly the stored set.
func VerifC18_Migrate() {
	ids := []string{"A", "B"}
	maxSigs := vxParam("sigs", 2)
	s := vxNewStore()
	live := &vxLive{}
	vxJSONReset()
	vxJSONDelim("{")
	if vxBool() {
		vxJSONKey("version")
		vxJSONVal()
	}
	hasSigs := vxBool()
	closeIdx, badIdx, elems := -1, -1, 0
	keyIdx, firstSig, lastVal := -1, -1, -1
	if hasSigs {
		keyIdx = vxJSONLen()
		vxJSONKey("signatures")
		vxJSONDelim("[")
		k := vxPick(maxSigs + 1)
		for i := 0; i < k; i++ {
			if badIdx < 0 && vxBool() {
				badIdx = vxJSONLen()
				vxJSONBad()
				continue
			}
			sig := vxSig(ids[vxPick(2)])
			if firstSig < 0 {
				firstSig = vxJSONLen()
			}
			vxJSONSig(sig)
			live.put(sig)
			elems++
		}
		closeIdx = vxJSONLen()
		vxJSONDelim("]")
	}
	if vxBool() {
		vxJSONKey("generated_at")
		lastVal = vxJSONLen()
		vxJSONVal()
	}
	vxJSONDelim("}")
	total := vxJSONLen()
	cut := vxIntRange(0, total)
	vxAssume(cut >= 0 && cut <= total)
	mid := vxBool()
	path := vxJSONWrite(cut, mid)

	count, err := s.MigrateFromJSON(path)

	complete := cut == total
	// witnesses of the distinct truncation shapes (the selftest replays them on the real decoder)
	vxCover("cut-inside-the-signatures-key", hasSigs && mid && cut == keyIdx)
	vxCover("cut-after-the-signatures-key", hasSigs && !mid && cut == keyIdx+1)
	vxCover("cut-after-the-array-opens", hasSigs && !mid && cut == keyIdx+2)
	vxCover("cut-inside-a-signature", mid && firstSig >= 0 && cut == firstSig)
	vxCover("cut-between-signatures", !mid && firstSig >= 0 && cut == firstSig+1 && cut < closeIdx)
	vxCover("cut-before-the-array-closes", hasSigs && elems > 0 && cut == closeIdx)
	vxCover("cut-after-the-array-closes", hasSigs && cut == closeIdx+1 && !complete)
	vxCover("cut-inside-a-trailing-value", mid && lastVal >= 0 && cut == lastVal)
	vxCover("empty-file", cut == 0)
	arrayClosed := hasSigs && cut > closeIdx
	badPresent := badIdx >= 0 && cut > badIdx
	if !arrayClosed {
		vxAssert("file-without-a-complete-signatures-array-is-an-error", err != nil)
		vxCover("truncated-before-array-end", hasSigs && !complete)
		vxCover("no-signatures-key", !hasSigs && complete)
	}
	if badPresent {
		vxAssert("malformed-element-is-an-error", err != nil)
		vxCover("malformed-element", true)
	}
	if complete && hasSigs && badIdx < 0 {
		vxAssert("complete-well-formed-file-migrates", err == nil)
		vxCover("complete-file", true)
	}
	if err == nil {
		vxCover("migration-succeeded", true)
		vxAssert("success-counts-every-signature", count == elems)
		for _, id := range ids {
			want := live.get(id)
			got, gerr := s.GetSignature(id)
			if want != nil {
				vxAssert("migrated-signature-is-found", gerr == nil && got != nil)
				if gerr == nil && got != nil {
					vxAssert("migrated-signature-is-the-last-of-its-id", vxSigSame(got, want))
				}
			} else {
				vxAssert("nothing-else-is-migrated", gerr != nil)
			}
		}
		out := vxOutPath()
		vxLastOut = out
		xerr := s.ExportToJSON(out)
		vxAssert("export-succeeds", xerr == nil)
		if xerr == nil {
			exp := vxExported()
			vxAssert("export-lists-each-signature-once", len(exp) == len(live.sigs))
			for i := range live.sigs {
				found := false
				for j := range exp {
					if exp[j].ID == live.sigs[i].ID {
						found = true
						vxAssert("exported-signature-equals-the-migrated-one", vxSigSame(&exp[j], &live.sigs[i]))
					}
				}
				vxAssert("every-migrated-signature-is-exported", found)
			}
			vxCover("export-round-trip", len(live.sigs) > 0)
		}
		os.Remove(out)
	}
	if vxSymbolic() == false {
		os.Remove(path)
	}
}
