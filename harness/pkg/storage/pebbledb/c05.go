//go:build verif_harness

package pebbledb

import (
	"github.com/BlackVectorOps/semantic_firewall/v3/pkg/analysis/topology"
	"github.com/BlackVectorOps/semantic_firewall/v3/pkg/detection"
)

// VerifC05_StoreRoundTrip: a function indexed into the embedded database is found again by a scan
// of the same topology, with full confidence, in full and exact mode, at every threshold <= 1.
func VerifC05_StoreRoundTrip() {
	s := vxNewStore()
	k := vxPick(2)
	topo := vxPoolTopo(k)
	topo.CallSignatures["net.Dial"] = 1
	topo.StringLiterals = []string{"\"beacon\"", "ab"}
	if vxBool() { // another signature is already present; it may share this function's real hashes
		other := vxSig(vxID())
		th, fh := detection.GenerateTopologyHash(topo), topology.GenerateFuzzyHash(topo)
		other.TopologyHash = vxSelStr([]string{th, vxTopoHash(1 - k)}, vxIntRange(0, 1))
		other.FuzzyHash = vxSelStr([]string{"", fh, vxFuzzyHash(1 - k)}, vxIntRange(0, 2))
		s.AddSignature(&other)
	}
	sig := detection.IndexFunction(topo, "sig", "d", "HIGH", "c")
	batch := vxBool()
	if batch {
		vxAssert("batch-add-succeeds", s.AddSignatures([]*detection.Signature{&sig}) == nil)
	} else {
		vxAssert("add-succeeds", s.AddSignature(&sig) == nil)
	}
	thr := vxF64()
	vxAssume(vxAnd(thr > 0, thr <= 1))
	s.SetThreshold(thr)
	res, err := s.ScanTopology(topo, "f")
	vxAssert("scan-no-error", err == nil)
	found := false
	for _, r := range res {
		if r.SignatureID == sig.ID {
			found = vxSameF64(r.Confidence, 1.0)
		}
	}
	vxAssert("indexed-function-found-with-full-confidence", found)
	ex, err := s.ScanTopologyExact(topo, "f")
	vxAssert("exact-scan-no-error", err == nil)
	vxAssert("exact-scan-finds-it", ex != nil && ex.Confidence == 1.0)
	vxCover("round-trip-reachable", true)
}
