//go:build verif_harness

package pebbledb

import (
	"github.com/BlackVectorOps/semantic_firewall/v3/pkg/analysis/topology"
	"github.com/BlackVectorOps/semantic_firewall/v3/pkg/detection"
	"github.com/cockroachdb/pebble"
	"github.com/cockroachdb/pebble/vfs"
)

// ---- store construction: natively a real Pebble on an in-memory file system; symbolically the
// engine's contract model (pebble.Open is intercepted) ------------------------------------------

func vxMemOptions() *pebble.Options { return &pebble.Options{FS: vfs.NewMem()} }

func vxNewStore() *PebbleScanner {
	db, err := pebble.Open("vxdb", vxMemOptions())
	if err != nil {
		panic(vxStop{"cannot-open-store"})
	}
	return &PebbleScanner{db: db, matchThreshold: 0.75, entropyTolerance: 0.5}
}

// pool of function shapes; their real topology / fuzzy hashes are the hash pool
func vxPoolTopo(k int) *topology.FunctionTopology {
	return &topology.FunctionTopology{BlockCount: 1 + k, LoopCount: k, ParamCount: 1, ReturnCount: 1, InstrCount: 4,
		EntropyScore: vxEntropyPool()[k%len(vxEntropyPool())], CallSignatures: map[string]int{}}
}
func vxTopoHash(k int) string  { return detection.GenerateTopologyHash(vxPoolTopo(k)) }
func vxFuzzyHash(k int) string { return topology.GenerateFuzzyHash(vxPoolTopo(k)) }
func vxEntropyPool() []float64 { return []float64{0, 0.5, 4.9999, 5, 5.00004, 7.75} }

func vxIDBytes(s string) bool {
	for i := 0; i < len(s); i++ {
		if s[i] < 0x21 || s[i] > 0x7e {
			return false
		}
	}
	return len(s) > 0
}

func vxID() string {
	id := vxConcretizeLen(vxStr(2))
	vxAssume(vxIDBytes(id))
	return id
}

// a signature whose hashes, entropy and tolerance are solver-chosen members of small pools; nothing
// forks here, the store's own comparisons decide which distinctions matter
func vxSig(id string) detection.Signature {
	s := detection.Signature{ID: id, Name: "n", Severity: "HIGH"}
	s.TopologyHash = vxSelStr([]string{vxTopoHash(0), vxTopoHash(1)}, vxIntRange(0, 1))
	s.FuzzyHash = vxSelStr([]string{"", vxFuzzyHash(0), vxFuzzyHash(1)}, vxIntRange(0, 2))
	s.EntropyScore = vxSelF64(vxEntropyPool(), vxIntRange(0, len(vxEntropyPool())-1))
	s.EntropyTolerance = vxSelF64([]float64{0, 0.5}, vxIntRange(0, 1))
	return s
}

func vxSigSame(a, b *detection.Signature) bool {
	r := vxAnd(vxStrEq(a.ID, b.ID), vxStrEq(a.TopologyHash, b.TopologyHash))
	r = vxAnd(r, vxAnd(vxStrEq(a.FuzzyHash, b.FuzzyHash), a.NodeCount == b.NodeCount))
	r = vxAnd(r, vxAnd(vxSameF64(a.EntropyScore, b.EntropyScore), vxSameF64(a.EntropyTolerance, b.EntropyTolerance)))
	return r
}

// the specification's state: the live signature set, last writer wins
type vxLive struct{ sigs []detection.Signature }

func (l *vxLive) put(s detection.Signature) {
	for i := range l.sigs {
		if l.sigs[i].ID == s.ID {
			l.sigs[i] = s
			return
		}
	}
	l.sigs = append(l.sigs, s)
}
func (l *vxLive) del(id string) bool {
	for i := range l.sigs {
		if l.sigs[i].ID == id {
			l.sigs = append(append([]detection.Signature(nil), l.sigs[:i]...), l.sigs[i+1:]...)
			return true
		}
	}
	return false
}
func (l *vxLive) get(id string) *detection.Signature {
	for i := range l.sigs {
		if l.sigs[i].ID == id {
			return &l.sigs[i]
		}
	}
	return nil
}

// every lookup compared with a brute-force pass over the live set
func vxCheckLookups(s *PebbleScanner, live *vxLive, ids []string) {
	which := vxParam("lookup", 0) // one lookup family per run: their case splits add up instead of multiplying
	if which == 0 {
		vxCheckByID(s, live, ids)
	}
	if which == 1 {
		vxCheckByTopology(s, live)
	}
	if which == 2 {
		vxCheckEntropyRange(s, live)
	}
	if which == 3 {
		vxCheckCandidates(s, live)
	}
	if which == 4 {
		vxCheckStats(s, live)
	}
	if which == 5 {
		vxCheckIndexEntries(s, live)
	}
}

// what the candidate and alert scans read: every entry of the exact-hash and of the fuzzy index,
// decoded with the store's own decoder, names a live signature, sits under that signature's current
// hash, and carries its current entropy score and tolerance (the scans' pre-filter); and every live
// signature has its entries. A stale packed value is observable by a scan at a suitable entropy,
// so this is the lookup clause of C06 stated on what the lookups read.
func vxCheckIndexEntries(s *PebbleScanner, live *vxLive) {
	for pass := 0; pass < 2; pass++ {
		prefix := prefixIdxTopo
		if pass == 1 {
			prefix = prefixIdxFuzzy
		}
		it, err := s.db.NewIter(&pebble.IterOptions{LowerBound: prefix, UpperBound: incrementLastByte(prefix)})
		vxAssert("index-iteration-no-error", err == nil)
		if err != nil {
			return
		}
		n := 0
		for it.First(); it.Valid(); it.Next() {
			n++
			id, score, tol, packed := decodeIndexValue(it.Value())
			w := live.get(id)
			vxAssert("index-entry-names-a-live-signature", w != nil)
			if w != nil {
				wantKey := buildTopoIndexKey(w.TopologyHash, w.ID)
				if pass == 1 {
					wantKey = buildFuzzyIndexKey(w.FuzzyHash, w.ID)
				}
				vxAssert("index-entry-is-under-the-current-hash", vxStrEq(string(it.Key()), string(wantKey)))
				if packed {
					vxAssert("index-entry-carries-the-current-entropy-filter", vxAnd(vxSameF64(score, w.EntropyScore), vxSameF64(tol, w.EntropyTolerance)))
				}
			}
		}
		it.Close()
		want := 0
		for _, sg := range live.sigs {
			if pass == 0 || sg.FuzzyHash != "" {
				want++
			}
		}
		vxAssert("index-has-one-entry-per-live-signature", n == want)
	}
}

func vxCheckByID(s *PebbleScanner, live *vxLive, ids []string) {
	for _, id := range ids {
		got, err := s.GetSignature(id)
		want := live.get(id)
		if want == nil {
			vxAssert("get-absent-id-not-found", err != nil)
		} else {
			vxAssert("get-live-id-found", err == nil && got != nil)
			if err == nil && got != nil {
				vxAssert("get-returns-current-version", vxSigSame(got, want))
			}
		}
	}
	n, err := s.CountSignatures()
	vxAssert("count-matches", err == nil && n == len(live.sigs))
	listed, err := s.ListSignatureIDs()
	vxAssert("list-size-matches", err == nil && len(listed) == len(live.sigs))
	for _, sg := range live.sigs {
		in := false
		for _, id := range listed {
			if id == sg.ID {
				in = true
			}
		}
		vxAssert("list-contains-live-id", in)
	}
}

func vxCheckByTopology(s *PebbleScanner, live *vxLive) {
	for k := 0; k < 2; k++ {
		h := vxTopoHash(k)
		got, err := s.GetSignatureByTopology(h)
		any := false
		for _, sg := range live.sigs {
			if sg.TopologyHash == h {
				any = true
			}
		}
		if !any {
			vxAssert("by-topology-absent-not-found", err != nil)
		} else {
			vxAssert("by-topology-live-found", err == nil && got != nil)
			if err == nil && got != nil {
				w := live.get(got.ID)
				vxAssert("by-topology-returns-live-signature", w != nil && w.TopologyHash == h && vxSigSame(got, w))
			}
		}
	}
}

func vxCheckEntropyRange(s *PebbleScanner, live *vxLive) {
	// entropy range [0.5, 5] over the pool
	rs, err := s.ScanByEntropyRange(0.5, 5)
	vxAssert("entropy-range-no-error", err == nil)
	wantN := 0
	for _, sg := range live.sigs {
		if sg.EntropyScore >= 0.5 && sg.EntropyScore <= 5 {
			wantN++
			in := false
			for _, r := range rs {
				if r.ID == sg.ID {
					in = true
				}
			}
			vxAssert("entropy-range-contains-live", in)
		}
	}
	vxAssert("entropy-range-exact-size", len(rs) == wantN)
}

func vxCheckCandidates(s *PebbleScanner, live *vxLive) {
	// candidate scan for each pool shape: exactly the live signatures whose hash or bucket matches and
	// whose packed entropy filter passes
	for k := 0; k < 2; k++ {
		if sh := vxParam("shape", -1); sh >= 0 && sh != k {
			continue
		}
		topo := vxPoolTopo(k)
		cands, err := s.ScanCandidates(topo)
		vxAssert("candidates-no-error", err == nil)
		th, fh := vxTopoHash(k), vxFuzzyHash(k)
		want := 0
		for _, sg := range live.sigs {
			hit := sg.TopologyHash == th || (sg.FuzzyHash != "" && sg.FuzzyHash == fh)
			tol := sg.EntropyTolerance
			if tol == 0 {
				tol = 0.5
			}
			d := sg.EntropyScore - topo.EntropyScore
			if d < 0 {
				d = -d
			}
			if hit && d <= tol {
				want++
				in := false
				for _, c := range cands {
					if c.ID == sg.ID {
						in = vxSigSame(c, &sg)
					}
				}
				vxAssert("candidates-contain-live-match", in)
			}
		}
		vxAssert("candidates-exact-size", len(cands) == want)
	}
}

func vxCheckStats(s *PebbleScanner, live *vxLive) {
	st, err := s.Stats()
	vxAssert("stats-no-error", err == nil && st != nil)
	if err == nil && st != nil {
		fz := 0
		for _, sg := range live.sigs {
			if sg.FuzzyHash != "" {
				fz++
			}
		}
		vxAssert("stats-counts-match", st.SignatureCount == len(live.sigs) && st.TopoIndexCount == len(live.sigs) && st.EntropyIndexCount == len(live.sigs) && st.FuzzyIndexCount == fz)
	}
}

// VerifC06_Step: an arbitrary consistent store of up to `pre` signatures, one arbitrary mutation,
// then every lookup against brute force.
func VerifC06_Step() {
	s := vxNewStore()
	live := &vxLive{}
	ids := []string{vxID(), vxID()}
	if vxParam("fixedids", 0) == 1 {
		// the candidate-scan family multiplies the splits of the entropy filter with those of symbolic IDs:
		// it runs with two fixed IDs (what IDs look like is covered by the other families)
		ids = []string{"A", "B"}
	}
	pre := vxPick(vxParam("pre", 2) + 1)
	for i := 0; i < pre; i++ {
		sg := vxSig(ids[i])
		cp := sg
		if err := s.AddSignature(&sg); err != nil {
			vxAssert("add-succeeds", false)
		}
		live.put(cp)
	}
	switch vxPick(6) {
	case 0: // add or in-place update
		sg := vxSig(ids[vxPick(2)])
		cp := sg
		vxAssert("add-succeeds", s.AddSignature(&sg) == nil)
		live.put(cp)
	case 1: // batch add, repeated IDs allowed, last one wins
		b0, b1 := vxSig(ids[vxPick(2)]), vxSig(ids[vxPick(2)])
		c0, c1 := b0, b1
		vxAssert("batch-add-succeeds", s.AddSignatures([]*detection.Signature{&b0, &b1}) == nil)
		live.put(c0)
		live.put(c1)
	case 2: // delete
		id := ids[vxPick(2)]
		err := s.DeleteSignature(id)
		had := live.del(id)
		vxAssert("delete-reports-presence", (err == nil) == had)
	case 3: // false-positive mark keeps the signature
		id := ids[vxPick(2)]
		err := s.MarkFalsePositive(id, "note")
		vxAssert("mark-reports-presence", (err == nil) == (live.get(id) != nil))
	case 4: // rebuild
		vxAssert("rebuild-succeeds", s.RebuildIndexes() == nil)
	default: // nothing (the pre-state itself)
	}
	vxCheckLookups(s, live, ids)
	vxCover("two-live-signatures", len(live.sigs) == 2)
	vxCover("empty-store", len(live.sigs) == 0)
}
