//go:build verif_harness

package pebbledb

import (
	"github.com/BlackVectorOps/semantic_firewall/v3/pkg/detection"
)

// VerifC08_PebbleAlerts: the embedded back end's filters and ordering with the real
// detection.MatchSignature: signatures indexed under the scanned shape's hash, signature and
// scanner tolerances solver-chosen (including 0, where the confidence degenerates to NaN), entropies
// from the pool, one signature optionally demanding a call the function does not make.
func VerifC08_PebbleAlerts() {
	s := vxNewStore()
	n := vxParam("sigs", 2)
	ids := []string{"s0", "s1", "s2"}
	k := vxPick(2)
	topo := vxPoolTopo(k)
	for i := 0; i < n; i++ {
		sg := detection.Signature{ID: ids[i], Name: "n", TopologyHash: vxTopoHash(k), NodeCount: i}
		// (the last value differs from the first by little, so that two confidences can lie within a hundredth of each other)
		sg.EntropyScore = vxSelF64([]float64{topo.EntropyScore, topo.EntropyScore + 0.25, 7.9, topo.EntropyScore + 0.01}, vxIntRange(0, 3))
		sg.EntropyTolerance = vxSelF64([]float64{0, 0.5}, vxIntRange(0, 1))
		if vxBool() {
			sg.IdentifyingFeatures.RequiredCalls = []string{"net.Dial"}
		}
		if err := s.AddSignature(&sg); err != nil {
			vxAssert("add-succeeds", false)
		}
	}
	thr := vxF64()
	vxAssume(vxAnd(thr > 0, thr <= 1))
	tol := vxF64()
	vxAssume(tol >= 0)
	s.SetThreshold(thr)
	s.SetEntropyTolerance(tol)
	res, err := s.ScanTopology(topo, "f")
	vxAssert("scan-no-error", err == nil)
	okRange, okThr, okMissing, okSorted := true, true, true, true
	for i, r := range res {
		okRange = vxAnd(okRange, vxAnd(r.Confidence >= 0, r.Confidence <= 1))
		okThr = vxAnd(okThr, r.Confidence >= thr)
		okMissing = vxAnd(okMissing, len(r.MatchDetails.CallsMissing) == 0)
		if i > 0 {
			okSorted = vxAnd(okSorted, res[i-1].Confidence >= r.Confidence)
		}
	}
	vxAssert("alerts-in-range", okRange)
	vxAssert("alerts-meet-threshold", okThr)
	vxAssert("alerts-have-no-missing-call", okMissing)
	vxAssert("alerts-descending", okSorted)
	vxCover("two-alerts", len(res) >= 2)
	vxCover("no-alert", len(res) == 0)
	// exact mode: whatever it reports, full mode reports too, with the same confidence
	ex, err := s.ScanTopologyExact(topo, "f")
	vxAssert("exact-no-error", err == nil)
	if ex != nil {
		inFull := false
		for _, r := range res {
			inFull = vxOr(inFull, vxAnd(vxStrEq(r.SignatureID, ex.SignatureID), vxSameF64(r.Confidence, ex.Confidence)))
		}
		vxAssert("exact-implies-full", inFull)
		vxAssert("exact-in-range", vxAnd(ex.Confidence >= thr, ex.Confidence <= 1))
		vxCover("exact-hit", true)
	}
}
