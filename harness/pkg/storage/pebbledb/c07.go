//go:build verif_harness

package pebbledb

import (
	"github.com/BlackVectorOps/semantic_firewall/v3/pkg/detection"
)

// ---- crash and interference hooks (engine-native; natively only the "no crash / not interleaved"
// schedules can be realised, so violations found under other schedules are confirmed by concrete
// re-execution of the code's SSA) ----------------------------------------------------------------

// vxCrashBeforeCommit: the machine dies just before the k-th commit from now (k >= limit: never)
func vxCrashBeforeCommit(k int) {}

// vxRunUntilCrash runs f; returns true when the simulated crash stopped it
func vxRunUntilCrash(f func()) bool { f(); return false }

// vxReopen: the store as found after a restart; powerLoss drops everything that was not synced
func vxReopen(s *PebbleScanner, powerLoss bool) {}

// vxInterfere registers a writer that runs, once, between two reader-visible database calls
func vxInterfere(w func()) {}

// vxInterfered reports whether (and only in the symbolic run) the writer has already run
func vxInterfered() bool { return false }

// vxConsistent: does the store answer like a store holding exactly `live`?
func vxConsistent(s *PebbleScanner, live *vxLive, ids []string) bool {
	ok := true
	for _, id := range ids {
		got, err := s.GetSignature(id)
		want := live.get(id)
		if want == nil {
			ok = vxAnd(ok, err != nil)
		} else {
			ok = vxAnd(ok, err == nil && got != nil)
			if err == nil && got != nil {
				ok = vxAnd(ok, vxSigSame(got, want))
			}
		}
	}
	st, err := s.Stats()
	if err != nil || st == nil {
		return false
	}
	fz := 0
	for _, sg := range live.sigs {
		if sg.FuzzyHash != "" {
			fz++
		}
	}
	ok = vxAnd(ok, st.SignatureCount == len(live.sigs) && st.TopoIndexCount == len(live.sigs) && st.EntropyIndexCount == len(live.sigs) && st.FuzzyIndexCount == fz)
	return ok
}

func vxCopyLive(l *vxLive) *vxLive {
	return &vxLive{sigs: append([]detection.Signature(nil), l.sigs...)}
}

// VerifC07_Crash: a mutation interrupted by a crash before any of its commits leaves the store
// exactly as before or exactly as after, and as after whenever the call had returned success.
func vxSig07(id string) detection.Signature {
	if vxParam("samehist", 0) == 1 {
		return vxSigLite(id) // smaller pools: the longer history multiplies every choice
	}
	return vxSig(id)
}

func VerifC07_Crash() {
	s := vxNewStore()
	before := &vxLive{}
	ids := []string{vxID(), vxID()}
	pre := vxPick(2)
	if vxParam("samehist", 0) == 1 {
		// a longer history on one ID: it is added, re-added (possibly with identical index keys), and then
		// mutated - what an index key's write history looks like matters to tombstone optimisations
		ids = []string{"A", "A"}
		pre = 2
	}
	for i := 0; i < pre; i++ {
		sg := vxSig07(ids[i])
		cp := sg
		if err := s.AddSignature(&sg); err != nil {
			vxAssert("add-succeeds", false)
		}
		before.put(cp)
	}
	after := vxCopyLive(before)
	op := vxPick(5)
	if vxParam("samehist", 0) == 1 {
		vxAssume(op == 0) // the longer history is followed by an add/update only ...
	}
	crashAt := vxPick(3) // before commit 0, before commit 1, or not within the first two commits
	if vxParam("samehist", 0) == 1 {
		vxAssume(crashAt == 2) // ... and by a restart (clean or power loss) after the call returned, not by a crash inside it
	}
	vxCrashBeforeCommit(crashAt)
	returnedOK := false
	var mutate func() error
	switch op {
	case 0:
		sg := vxSig07(ids[vxPick(2)])
		cp := sg
		after.put(cp)
		mutate = func() error { return s.AddSignature(&sg) }
	case 1:
		b0, b1 := vxSig07(ids[vxPick(2)]), vxSig07(ids[vxPick(2)])
		c0, c1 := b0, b1
		after.put(c0)
		after.put(c1)
		mutate = func() error { return s.AddSignatures([]*detection.Signature{&b0, &b1}) }
	case 2:
		id := ids[vxPick(2)]
		after.del(id)
		mutate = func() error { s.DeleteSignature(id); return nil }
	case 3:
		id := ids[vxPick(2)]
		mutate = func() error { s.MarkFalsePositive(id, "n"); return nil }
	default:
		mutate = func() error { return s.RebuildIndexes() }
	}
	crashed := vxRunUntilCrash(func() {
		if mutate() == nil {
			returnedOK = true
		}
	})
	vxReopen(s, vxBool()) // a power loss may also hit after the call returned
	if op == 4 {
		// an interrupted rebuild never loses a record, and a complete rebuild restores consistency
		recs := true
		for _, sg := range before.sigs {
			got, err := s.GetSignature(sg.ID)
			recs = vxAnd(recs, err == nil && got != nil)
		}
		vxAssert("rebuild-never-loses-a-record", recs)
		vxAssert("second-rebuild-succeeds", s.RebuildIndexes() == nil)
		vxAssert("rebuild-restores-consistency", vxConsistent(s, before, ids))
		vxCover("rebuild-interrupted", crashed)
		return
	}
	okAfter := vxConsistent(s, after, ids)
	if returnedOK {
		vxAssert("acknowledged-mutation-is-durable", okAfter)
	} else {
		okBefore := vxConsistent(s, before, ids)
		vxAssert("interrupted-mutation-all-or-nothing", vxOr(okBefore, okAfter))
	}
	if vxParam("samehist", 0) == 0 {
		vxCover("crash-hit", crashed)
	}
	vxCover("completed", returnedOK)
}
