//go:build verif_harness

package jsondb

import (
	"github.com/BlackVectorOps/semantic_firewall/v3/pkg/analysis/topology"
	"github.com/BlackVectorOps/semantic_firewall/v3/pkg/detection"
)

// K5: the JSON back end's filters and ordering. detection.MatchSignature is replaced by its
// contract (an arbitrary confidence per signature that is a number in [0,1] or NaN, 0 when a
// required call is missing; the same value whenever the same signature is matched again with an
// irrelevant tolerance argument) - discharged on the real code by VerifC08_MatchSignature.
func vxScannerWith(n int, thr, tol float64) *Scanner {
	s := NewScanner()
	s.matchThreshold = thr
	s.entropyTolerance = tol
	ids := []string{"s0", "s1", "s2"}
	for i := 0; i < n; i++ {
		sig := detection.Signature{ID: ids[i], TopologyHash: "H", EntropyTolerance: 0.5}
		s.db.Signatures = append(s.db.Signatures, sig)
		s.sigMap[sig.ID] = i
	}
	return s
}

func VerifC08_JSONAlerts() {
	n := vxParam("sigs", 2)
	thr := vxF64()
	vxAssume(vxAnd(thr > 0, thr <= 1))
	thr2 := vxF64()
	vxAssume(vxAnd(thr2 >= thr, thr2 <= 1))
	topo := &topology.FunctionTopology{}
	s := vxScannerWith(n, thr, 0.5)
	res, err := s.ScanTopology(topo, "f")
	vxAssert("scan-no-error", err == nil)
	okRange, okThr, okMissing, okSorted := true, true, true, true
	for i, r := range res {
		okRange = vxAnd(okRange, vxAnd(r.Confidence >= 0, r.Confidence <= 1))
		okThr = vxAnd(okThr, r.Confidence >= thr)
		okMissing = vxAnd(okMissing, len(r.MatchDetails.CallsMissing) == 0)
		if i > 0 {
			okSorted = vxAnd(okSorted, res[i-1].Confidence >= r.Confidence)
		}
	}
	vxAssert("alerts-in-range", okRange)
	vxAssert("alerts-meet-threshold", okThr)
	vxAssert("alerts-have-no-missing-call", okMissing)
	vxAssert("alerts-descending", okSorted)
	vxCover("two-alerts", len(res) >= 2)
	vxCover("no-alert", len(res) == 0)

	// raising the threshold can only remove alerts (same confidences)
	s2 := vxScannerWith(n, thr2, 0.5)
	res2, _ := s2.ScanTopology(topo, "f")
	mono := true
	for _, r2 := range res2 {
		found := false
		for _, r := range res {
			found = vxOr(found, vxAnd(vxStrEq(r.SignatureID, r2.SignatureID), vxSameF64(r.Confidence, r2.Confidence)))
		}
		mono = vxAnd(mono, found)
	}
	vxAssert("threshold-monotone", mono)

	// exact mode is contained in full mode (signature tolerances positive, threshold <= 0.99)
	ex, _ := s.ScanTopologyExact(topo, "f")
	if ex != nil {
		inFull := false
		for _, r := range res {
			inFull = vxOr(inFull, vxAnd(vxStrEq(r.SignatureID, ex.SignatureID), vxSameF64(r.Confidence, ex.Confidence)))
		}
		vxAssert("exact-implies-full", vxImplies(thr <= 0.99, inFull))
		vxAssert("exact-in-range", vxAnd(ex.Confidence >= 0.99, ex.Confidence <= 1))
		vxCover("exact-hit", true)
	}
}
