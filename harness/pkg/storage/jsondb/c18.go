//go:build verif_harness

package jsondb

import (
	"github.com/BlackVectorOps/semantic_firewall/v3/pkg/detection"
)

func vxSigEq(a, b *detection.Signature) bool {
	r := vxAnd(vxStrEq(a.ID, b.ID), vxStrEq(a.Name, b.Name))
	r = vxAnd(r, vxAnd(vxStrEq(a.TopologyHash, b.TopologyHash), vxStrEq(a.FuzzyHash, b.FuzzyHash)))
	r = vxAnd(r, vxAnd(vxSameF64(a.EntropyScore, b.EntropyScore), vxSameF64(a.EntropyTolerance, b.EntropyTolerance)))
	r = vxAnd(r, vxAnd(a.NodeCount == b.NodeCount, a.LoopDepth == b.LoopDepth))
	return r
}

func vxMakeSig(ids []string) detection.Signature {
	return detection.Signature{
		ID:           ids[vxPick(len(ids))],
		Name:         vxStr(2),
		TopologyHash: vxStr(2),
		FuzzyHash:    vxStr(2),
		EntropyScore: vxF64(),
		NodeCount:    vxInt(),
		LoopDepth:    vxInt(),
	}
}

// VerifC18_JSONAddGet: after any history of single and batch adds, every ID that was added is
// fetched back with the content of the last signature added under it.
func VerifC18_JSONAddGet() {
	ids := []string{"A", "B"}
	s := NewScanner()
	last := map[string]*detection.Signature{}
	nops := vxParam("ops", 3)
	for op := 0; op < nops; op++ {
		if vxBool() {
			sig := vxMakeSig(ids)
			cp := sig
			if err := s.AddSignature(&sig); err != nil {
				vxAssert("add-succeeds", false)
			}
			last[cp.ID] = &cp
		} else {
			n := 1 + vxPick(2)
			batch := make([]detection.Signature, n)
			for i := range batch {
				batch[i] = vxMakeSig(ids)
			}
			cps := make([]detection.Signature, n)
			copy(cps, batch)
			if err := s.AddSignatures(batch); err != nil {
				vxAssert("batch-add-succeeds", false)
			}
			for i := range cps {
				last[cps[i].ID] = &cps[i]
			}
		}
	}
	for _, id := range ids {
		want, added := last[id]
		got, err := s.GetSignature(id)
		if added {
			vxAssert("added-signature-is-found", err == nil && got != nil)
			if err == nil && got != nil {
				vxAssert("found-signature-is-the-last-added", vxSigEq(got, want))
			}
			vxCover("lookup-after-add", true)
		} else {
			vxAssert("never-added-is-not-found", err != nil)
		}
	}
}

// VerifC18_JSONAutoID: a signature added without an ID gets one, and can be fetched back by it.
func VerifC18_JSONAutoID() {
	s := NewScanner()
	batch := []detection.Signature{{Name: "x", TopologyHash: "h"}}
	if vxBool() {
		sig := batch[0]
		err := s.AddSignature(&sig)
		vxAssert("auto-id-assigned", err == nil && sig.ID != "")
		got, gerr := s.GetSignature(sig.ID)
		vxAssert("auto-id-retrievable", gerr == nil && got != nil && got.Name == "x")
	} else {
		err := s.AddSignatures(batch)
		vxAssert("auto-id-assigned", err == nil && batch[0].ID != "")
		got, gerr := s.GetSignature(batch[0].ID)
		vxAssert("auto-id-retrievable", gerr == nil && got != nil && got.Name == "x")
	}
	vxCover("auto-id-reachable", true)
}
