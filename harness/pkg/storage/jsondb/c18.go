//go:build verif_harness

package jsondb

import (
	"github.com/BlackVectorOps/semantic_firewall/v3/pkg/detection"
)

func vxSigEq(a, b *detection.Signature) bool {
	r := vxAnd(vxStrEq(a.ID, b.ID), vxStrEq(a.Name, b.Name))
	r = vxAnd(r, vxAnd(vxStrEq(a.TopologyHash, b.TopologyHash), vxStrEq(a.FuzzyHash, b.FuzzyHash)))
	r = vxAnd(r, vxAnd(vxSameF64(a.EntropyScore, b.EntropyScore), vxSameF64(a.EntropyTolerance, b.EntropyTolerance)))
	r = vxAnd(r, vxAnd(a.NodeCount == b.NodeCount, a.LoopDepth == b.LoopDepth))
	return r
}

func vxMakeSig(ids []string) detection.Signature {
	return detection.Signature{
		ID:           ids[vxPick(len(ids))],
		Name:         vxStr(2),
		TopologyHash: vxStr(2),
		FuzzyHash:    vxStr(2),
		EntropyScore: vxF64(),
		NodeCount:    vxInt(),
		LoopDepth:    vxInt(),
	}
}

// VerifC18_JSONAddGet: after any history of single and batch adds, every ID that was added is
// fetched back with the content of the last signature added under it.
func VerifC18_JSONAddGet() {
	ids := []string{"A", "B"}
	s := NewScanner()
	last := map[string]*detection.Signature{}
	nops := vxParam("ops", 3)
	for op := 0; op < nops; op++ {
		if vxBool() {
			sig := vxMakeSig(ids)
			cp := sig
			if err := s.AddSignature(&sig); err != nil {
				vxAssert("add-succeeds", false)
			}
			last[cp.ID] = &cp
		} else {
			n := 1 + vxPick(2)
			batch := make([]detection.Signature, n)
			for i := range batch {
				batch[i] = vxMakeSig(ids)
			}
			cps := make([]detection.Signature, n)
			copy(cps, batch)
			if err := s.AddSignatures(batch); err != nil {
				vxAssert("batch-add-succeeds", false)
			}
			for i := range cps {
				last[cps[i].ID] = &cps[i]
			}
		}
	}
	for _, id := range ids {
		want, added := last[id]
		got, err := s.GetSignature(id)
		if added {
			vxAssert("added-signature-is-found", err == nil && got != nil)
			if err == nil && got != nil {
				vxAssert("found-signature-is-the-last-added", vxSigEq(got, want))
			}
			vxCover("lookup-after-add", true)
		} else {
			vxAssert("never-added-is-not-found", err != nil)
		}
	}
}

// VerifC18_JSONAutoID: a signature added without an ID gets one, and can be fetched back by it.
func VerifC18_JSONAutoID() {
	s := NewScanner()
	batch := []detection.Signature{{Name: "x", TopologyHash: "h"}}
	if vxBool() {
		sig := batch[0]
		err := s.AddSignature(&sig)
		vxAssert("auto-id-assigned", err == nil && sig.ID != "")
		got, gerr := s.GetSignature(sig.ID)
		vxAssert("auto-id-retrievable", gerr == nil && got != nil && got.Name == "x")
	} else {
		err := s.AddSignatures(batch)
		vxAssert("auto-id-assigned", err == nil && batch[0].ID != "")
		got, gerr := s.GetSignature(batch[0].ID)
		vxAssert("auto-id-retrievable", gerr == nil && got != nil && got.Name == "x")
	}
	vxCover("auto-id-reachable", true)
}

// ---- SaveDatabase: atomic replacement under faults and under an overlapping second save ------
// (engine-native file-system model; natively only the fault-free, non-overlapping case exists)

func vxOSFile(name, content string)        {}
func vxOSFault(what string, on bool)       {}
func vxOSContent(name string) string       { return "" }
func vxOSWrittenInPlace(name string) bool  { return false }
func vxOSFileCount() int                   { return 0 }
func vxInterfere(w func())                 {}
func vxInterfered() bool                   { return false }

// VerifC18_SaveAtomic: whatever single call fails, the database file holds either the complete old
// or the complete new content, it is never opened for writing in place, success is reported iff
// the new content is in place, and an overlapping second save does not make a fault-free save fail.
func VerifC18_SaveAtomic() {
	if !vxSymbolic() {
		return
	}
	s := NewScanner()
	s.AddSignature(&detection.Signature{ID: "a", TopologyHash: "h"})
	vxOSFile("/d/db.json", "OLD")
	overlap := vxBool()
	for _, f := range []string{"stat", "createtemp", "chmod", "encode", "sync", "close", "rename"} {
		vxOSFault(f, vxBool())
	}
	var err2 error
	if overlap {
		vxInterfere(func() { err2 = s.SaveDatabase("/d/db.json") })
	}
	err := s.SaveDatabase("/d/db.json")
	got := vxOSContent("/d/db.json")
	vxAssert("file-is-complete-old-or-new", got == "OLD" || got == "NEW")
	vxAssert("never-written-in-place", !vxOSWrittenInPlace("/d/db.json"))
	if err == nil {
		vxAssert("success-means-new-content", got == "NEW")
		vxCover("success-reachable", true)
	} else if !vxInterfered() {
		vxAssert("failure-leaves-old-content", got == "OLD")
		vxCover("failure-reachable", true)
	}
	_ = err2
}

// VerifC18_SaveOverlap: two overlapping saves of the same store, no faults: both succeed.
func VerifC18_SaveOverlap() {
	if !vxSymbolic() {
		return
	}
	s := NewScanner()
	s.AddSignature(&detection.Signature{ID: "a", TopologyHash: "h"})
	vxOSFile("/d/db.json", "OLD")
	var err2 error
	vxInterfere(func() { err2 = s.SaveDatabase("/d/db.json") })
	err := s.SaveDatabase("/d/db.json")
	vxAssert("overlapping-saves-both-succeed", err == nil && err2 == nil)
	vxAssert("final-content-complete", vxOSContent("/d/db.json") == "NEW")
	vxAssert("no-temp-files-left", vxOSFileCount() == 1)
	vxCover("second-save-ran-inside-the-first", vxInterfered())
}
