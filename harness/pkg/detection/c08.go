//go:build verif_harness

package detection

import (
	"strings"

	"github.com/BlackVectorOps/semantic_firewall/v3/pkg/analysis/topology"
)

func vxContains(s, sub string) bool { return strings.Contains(s, sub) }

// K1: the topology component of the confidence is a real number in [0,1]
func VerifC08_TopoSimilarity() {
	topo := &topology.FunctionTopology{}
	topo.BlockCount = vxIntRange(-4, 1<<20)
	topo.LoopCount = vxIntRange(-4, 1<<20)
	sig := Signature{}
	sig.NodeCount = vxIntRange(-4, 1<<20)
	sig.LoopDepth = vxIntRange(-4, 1<<20)
	s := ComputeTopologySimilarity(topo, sig)
	vxAssert("toposim-in-range", vxAnd(s >= 0, s <= 1))
	vxCover("toposim-below-one", s < 1)
	vxCover("toposim-default", s == 0.5)
}

// K2: MatchCalls partitions the required calls into matched / missing correctly
func VerifC08_MatchCalls() {
	topo := &topology.FunctionTopology{CallSignatures: map[string]int{}}
	nk := vxPick(3)
	keys := make([]string, nk)
	for i := range keys {
		keys[i] = vxStrN(2)
		topo.CallSignatures[keys[i]] = 1
	}
	nr := vxPick(3)
	req := make([]string, nr)
	for i := range req {
		req[i] = vxStrN(1)
	}
	score, matched, missing := MatchCalls(topo, req)
	vxAssert("partition-size", len(matched)+len(missing) == nr)
	present := func(r string) bool {
		p := false
		for _, k := range keys {
			p = vxOr(p, vxContains(k, r))
		}
		return p
	}
	ok := true
	for _, m := range matched {
		ok = vxAnd(ok, present(m))
	}
	vxAssert("matched-are-present", ok)
	ok2 := true
	for _, m := range missing {
		ok2 = vxAnd(ok2, !present(m))
	}
	vxAssert("missing-are-absent", ok2)
	// every required call is accounted for in exactly one list
	acc := true
	for _, r := range req {
		in := false
		for _, m := range matched {
			in = vxOr(in, vxStrEq(m, r))
		}
		for _, m := range missing {
			in = vxOr(in, vxStrEq(m, r))
		}
		acc = vxAnd(acc, in)
	}
	vxAssert("all-required-accounted", acc)
	if nr > 0 {
		vxAssert("score-is-fraction", score == float64(len(matched))/float64(nr))
	}
	vxCover("some-missing", len(missing) > 0)
	vxCover("some-matched", len(matched) > 0)
}

// K3: a confidence that passes any threshold in (0,1] is a real number in [0,1], and is only
// reached when no required call is missing (veto). ComputeTopologySimilarity is replaced by its
// contract (K1), GenerateTopologyHash by a constant (hash equality is the symbolic sig hash).
func VerifC08_MatchSignature() {
	topo := &topology.FunctionTopology{CallSignatures: map[string]int{}}
	topo.EntropyScore = vxF64Range(0, 8)
	call := vxStrN(2)
	topo.CallSignatures[call] = 1
	topo.StringLiterals = []string{vxStrN(2)}
	sig := Signature{ID: "s", Name: "n"}
	if vxBool() {
		sig.TopologyHash = GenerateTopologyHash(topo) // the exact-hash case (realisable natively)
	} else {
		sig.TopologyHash = "X"
	}
	sig.EntropyScore = vxF64Range(0, 8)
	sig.EntropyTolerance = vxF64()
	vxAssume(sig.EntropyTolerance >= 0)
	tol := vxF64()
	vxAssume(tol >= 0)
	nr := vxPick(3)
	for i := 0; i < nr; i++ {
		sig.IdentifyingFeatures.RequiredCalls = append(sig.IdentifyingFeatures.RequiredCalls, vxStrN(1))
	}
	np := vxPick(2)
	for i := 0; i < np; i++ {
		sig.IdentifyingFeatures.StringPatterns = append(sig.IdentifyingFeatures.StringPatterns, vxStrN(1))
	}
	thr := vxF64()
	vxAssume(vxAnd(thr > 0, thr <= 1))

	r := MatchSignature(topo, "f", sig, tol)

	alert := r.Confidence >= thr // the filter both back ends apply
	vxCover("alert-reachable", alert)
	vxAssert("alert-confidence-in-range", vxImplies(alert, vxAnd(r.Confidence >= 0, r.Confidence <= 1)))
	vxAssert("alert-has-no-missing-call", vxImplies(alert, len(r.MatchDetails.CallsMissing) == 0))
	anyMissing := false
	for _, rq := range sig.IdentifyingFeatures.RequiredCalls {
		anyMissing = vxOr(anyMissing, !vxContains(call, rq))
	}
	vxAssert("veto", vxImplies(anyMissing, !alert))
	vxCover("veto-reachable", anyMissing)
	vxAssert("result-names-signature", vxAnd(vxStrEq(r.SignatureID, "s"), vxStrEq(r.MatchedFunction, "f")))
	// the internal 0/0 (both tolerances zero, equal entropies) yields NaN, which never passes a threshold
	vxCover("nan-confidence-exists", vxIsNaN(r.Confidence))
}
