//go:build verif_harness

package detection

import (
	"github.com/BlackVectorOps/semantic_firewall/v3/pkg/analysis/topology"
)

func vxAsciiLetters(s string) bool {
	for i := 0; i < len(s); i++ {
		c := s[i]
		if !(c >= 'a' && c <= 'z' || c >= 'A' && c <= 'Z' || c == '.' || c == '"') {
			return false
		}
	}
	return true
}

// VerifC05_SelfMatch: the signature derived from a topology matches that same topology with
// confidence exactly 1.0 (so it passes every threshold up to 1.0), with no call missing, and
// inside the packed entropy pre-filter - for arbitrary counters, entropy, call profile and literals.
func VerifC05_SelfMatch() {
	topo := &topology.FunctionTopology{CallSignatures: map[string]int{}}
	topo.ParamCount = vxIntRange(0, 8)
	topo.ReturnCount = vxIntRange(0, 4)
	topo.BlockCount = vxIntRange(0, 1<<20)
	topo.InstrCount = vxIntRange(0, 1<<20)
	topo.LoopCount = vxIntRange(0, 64)
	topo.BranchCount = vxIntRange(0, 1<<20)
	topo.HasDefer, topo.HasGo, topo.HasSelect, topo.HasPanic, topo.HasRange = vxBool(), vxBool(), vxBool(), vxBool(), vxBool()
	symbolicProfile := vxParam("mode", 0) == 1
	if symbolicProfile {
		// the entropy term is an independent summand of the confidence: with the call/string profile
		// symbolic the entropy is fixed, and vice versa (mode 0), so each run stays in one theory
		topo.EntropyScore = 3.5
	} else {
		topo.EntropyScore = vxF64Range(0, 8)
		topo.CallSignatures["net.Dial"] = 2
		topo.StringLiterals = []string{"\"beacon\"", "ab"}
	}
	nk := 0
	if symbolicProfile {
		nk = vxPick(vxParam("maxkeys", 2) + 1)
	}
	for i := 0; i < nk; i++ {
		key := vxConcretizeLen(vxStr(2))
		vxAssume(vxAnd(vxAsciiLetters(key), len(key) > 0))
		topo.CallSignatures[key] = vxIntRange(1, 1000)
	}
	nl := 0
	if symbolicProfile {
		nl = vxPick(vxParam("maxlits", 2) + 1)
	}
	for i := 0; i < nl; i++ {
		lit := vxConcretizeLen(vxStr(vxParam("litlen", 4)))
		vxAssume(vxAsciiLetters(lit))
		topo.StringLiterals = append(topo.StringLiterals, lit)
	}
	sig := IndexFunction(topo, "n", "d", "HIGH", "c")
	tol := vxF64()
	vxAssume(tol >= 0)
	r := MatchSignature(topo, "f", sig, tol)
	vxAssert("self-match-confidence-is-one", vxSameF64(r.Confidence, 1.0))
	vxAssert("self-match-no-missing-call", len(r.MatchDetails.CallsMissing) == 0)
	d := sig.EntropyScore - topo.EntropyScore
	if d < 0 {
		d = -d
	}
	vxAssert("self-match-passes-entropy-prefilter", d <= sig.EntropyTolerance && sig.EntropyTolerance > 0)
	// exact mode of the JSON back end passes tolerance 0.0
	r0 := MatchSignature(topo, "f", sig, 0.0)
	vxAssert("self-match-with-zero-tolerance-argument", vxSameF64(r0.Confidence, 1.0))
	if symbolicProfile {
		vxCover("with-calls-and-patterns", len(sig.IdentifyingFeatures.RequiredCalls) > 0 && len(sig.IdentifyingFeatures.StringPatterns) > 0)
	}
}
