//go:build verif_harness

package llm

import (
	"context"
	"encoding/json"
	"fmt"
	"net"
	"net/http"
	"net/http/httptest"
	"io"
	"strings"
	"time"

	"github.com/BlackVectorOps/semantic_firewall/v3/pkg/models"
)

// One scripted HTTP exchange (the k-th request the client sends, counted over both calls).
type vxExchange struct {
	TransportErr bool // the connection dies before any response
	ReadErr      bool // the body is cut short
	Status       int
	Decodes      bool // the body is a JSON object of the expected shape
	NItems       int  // 0..2 items
	Role         [2]int
	Kind         [2]int // 0: content is a JSON string, 1: array of parts, 2: neither
	PartType     [2]int
}

var vxRoles = []string{"assistant", "model", "user", "developer"}
var vxPartTypes = []string{"output_text", "text", "other"}

// ---- native realisation: an httptest server that plays the script --------------------------

var (
	vxScript        []vxExchange
	vxReqCount      int
	vxSentParses    bool
	vxSentSafe      bool
	vxFinalParses   bool
	vxFinalTrailing bool
	vxFinalVerdict  string
	vxFinalEvidence string
	vxServer        *httptest.Server
)

func vxHTTPScript(s []vxExchange)                              { vxScript = s }
func vxSentinelAnswer(parses, safe bool)                       { vxSentParses, vxSentSafe = parses, safe }
func vxFinalAnswer(parses bool, verdict, evidence string)      { vxFinalParses, vxFinalVerdict, vxFinalEvidence = parses, verdict, evidence }

// vxFinalTrailingData: the final answer is a complete JSON object followed by further data
// (a second, contradicting object) - not well-formed JSON as a whole
func vxFinalTrailingData(t bool) { vxFinalTrailing = t }
func vxAsciiText(s string) bool {
	for i := 0; i < len(s); i++ {
		if s[i] < 0x20 || s[i] >= 0x7f {
			return false
		}
	}
	return true
}
func vxContainsFold(s, sub string) bool { return strings.Contains(strings.ToLower(s), sub) }

func vxAPIBase() string {
	vxReqCount = 0
	vxServer = httptest.NewServer(http.HandlerFunc(func(w http.ResponseWriter, r *http.Request) {
		body, _ := io.ReadAll(r.Body)
		k := vxReqCount
		vxReqCount++
		if k >= len(vxScript) {
			w.WriteHeader(500)
			return
		}
		ex := vxScript[k]
		hang := func() {
			if hj, ok := w.(http.Hijacker); ok {
				if c, _, err := hj.Hijack(); err == nil {
					if tc, ok := c.(*net.TCPConn); ok {
						tc.SetLinger(0)
					}
					c.Close()
				}
			}
		}
		if ex.TransportErr {
			hang()
			return
		}
		text := ""
		if strings.Contains(string(body), "AI Security Sentinel") {
			if vxSentParses {
				text = fmt.Sprintf(`{"safe": %t, "analysis": "a"}`, vxSentSafe)
			} else {
				text = "sentinel garbage"
			}
		} else {
			if vxFinalParses {
				b, _ := json.Marshal(models.LLMResult{Verdict: vxFinalVerdict, Evidence: vxFinalEvidence})
				text = string(b)
				if vxFinalTrailing {
					text += ` {"verdict": "LIE", "evidence": "second object"}`
				}
			} else {
				text = "final garbage"
			}
		}
		payload := "not json at all"
		if ex.Decodes {
			var items []string
			for i := 0; i < ex.NItems && i < 2; i++ {
				itext := text
				if i != ex.NItems-1 && !strings.Contains(string(body), "AI Security Sentinel") {
					itext = vxItemText(false)
				}
				tj, _ := json.Marshal(itext)
				content := "42"
				switch ex.Kind[i] {
				case 0:
					content = string(tj)
				case 1:
					content = fmt.Sprintf(`[{"type": %q, "text": %s}]`, vxPartTypes[ex.PartType[i]%3], tj)
				}
				items = append(items, fmt.Sprintf(`{"type": "message", "role": %q, "content": %s}`, vxRoles[ex.Role[i]%4], content))
			}
			payload = `{"items": [` + strings.Join(items, ",") + `]}`
		}
		status := ex.Status
		if status < 100 || status > 999 {
			status = 599 // not a sendable status: treated like a server failure by the replay
		}
		if ex.ReadErr {
			w.Header().Set("Content-Length", fmt.Sprint(len(payload)+50))
			w.WriteHeader(status)
			w.Write([]byte(payload))
			if f, ok := w.(http.Flusher); ok {
				f.Flush()
			}
			hang()
			return
		}
		w.WriteHeader(status)
		w.Write([]byte(payload))
	}))
	return vxServer.URL
}

// vxCallOutcomes: natively turns the two booleans into a 2-call script (fatal 400 = call fails)
func vxCallOutcomes(gotS, gotF bool) {
	mk := func(ok bool) vxExchange {
		if ok {
			return vxExchange{Status: 200, Decodes: true, NItems: 1}
		}
		return vxExchange{Status: 400}
	}
	vxScript = []vxExchange{mk(gotS), mk(gotF)}
}

func vxRequestsSent() int { return vxReqCount }

func vxExpectedText() string {
	b, _ := json.Marshal(models.LLMResult{Verdict: vxFinalVerdict, Evidence: vxFinalEvidence})
	return string(b)
}

// vxItemText: the text carried by an item of a response body - the provider's final answer in the
// last item, a contradicting draft in an earlier one
func vxItemText(last bool) string {
	if last {
		return vxExpectedText()
	}
	return `{"verdict": "MATCH", "evidence": "draft item, superseded by the final answer"}`
}

func vxStopServer() {
	if vxServer != nil {
		vxServer.Close()
		vxServer = nil
	}
}

// ---- specification (written from the property statement, independent of the client code) ----

// vxCallOutcome: what one logical call (<= 4 attempts starting at exchange k) must yield.
// returns (gotText, nextK, chosenIsLast): chosenIsLast tells whether the answer is the last item of the body
func vxCallOutcome(script []vxExchange, k int) (bool, int, bool) {
	for attempt := 0; attempt < 4; attempt++ {
		ex := script[k]
		k++
		if ex.TransportErr || ex.ReadErr {
			continue
		}
		if ex.Status == 429 || (ex.Status >= 500 && ex.Status <= 599) {
			continue
		}
		if ex.Status != 200 || !ex.Decodes {
			return false, k, false
		}
		for i := ex.NItems - 1; i >= 0; i-- {
			if ex.Role[i] == 0 || ex.Role[i] == 1 {
				if ex.Kind[i] == 0 || ex.Kind[i] == 1 {
					return true, k, i == ex.NItems-1
				}
			}
		}
		return false, k, false
	}
	return false, k, false
}

func vxScriptedExchanges(n int) []vxExchange {
	script := make([]vxExchange, n)
	for k := range script {
		ex := &script[k]
		ex.TransportErr = vxBool()
		ex.ReadErr = vxBool()
		ex.Status = vxIntRange(100, 999)
		ex.Decodes = vxBool()
		ex.NItems = vxIntRange(0, 2)
		for i := 0; i < 2; i++ {
			ex.Role[i] = vxIntRange(0, 3)
			ex.Kind[i] = vxIntRange(0, 2)
			ex.PartType[i] = vxIntRange(0, 2)
		}
	}
	return script
}

// VerifC13_RetryLoop: one logical provider call over every script of 4 exchanges. The call
// succeeds exactly when the specification (vxCallOutcome) says a usable answer arrived, never
// turns a fatal status or a malformed body into success, and gives up after 4 attempts.
func VerifC13_RetryLoop() {
	defer vxStopServer()
	sleepFunc = func(time.Duration) {}
	script := vxScriptedExchanges(4)
	vxHTTPScript(script)
	vxSentinelAnswer(true, true)
	vxFinalAnswer(true, "MATCH", "fine")
	text, err := executeOpenAIRaw(context.Background(), "sys", "user", "key", "gpt-x", vxAPIBase())
	got, k, last := vxCallOutcome(script, 0)
	vxAssert("success-iff-usable-answer", (err == nil) == got)
	vxAssert("requests-sent-as-specified", vxRequestsSent() == k)
	if err == nil {
		vxCover("success-reachable", true)
		// the text handed on is the provider's text, or empty when only unknown part types came back
		// (the provider's answer is its LAST usable assistant item; an earlier item carries a draft with another text)
		vxAssert("text-is-providers", vxOr(vxStrEq(text, vxItemText(last)), vxStrEq(text, "")))
		vxCover("answer-after-a-draft-item", !last || script[k-1].NItems == 2)
	} else {
		vxCover("exhaustion-reachable", k == 4)
	}
}

// VerifC13_CallLLM: the verdict logic around the two provider calls, with executeOpenAIRaw
// replaced by its contract (proved by VerifC13_RetryLoop): each call either delivers the
// provider's text or fails.
func VerifC13_CallLLM() {
	defer vxStopServer()
	sleepFunc = func(time.Duration) {}
	nonceFails := vxBool()
	generateNonceFunc = func(int) (string, error) {
		if nonceFails {
			return "", fmt.Errorf("entropy exhausted")
		}
		return "0123456789abcdef", nil
	}
	gotS, gotF := vxBool(), vxBool()
	vxCallOutcomes(gotS, gotF)
	sentParses, sentSafe := vxBool(), vxBool()
	vxSentinelAnswer(sentParses, sentSafe)
	finalParses := vxBool()
	verdict := vxStr(vxParam("verdictlen", 10))
	evidence := vxStr(vxParam("evidencelen", 16))
	vxAssume(vxAnd(vxAsciiText(verdict), vxAsciiText(evidence)))
	vxFinalAnswer(finalParses, verdict, evidence)
	trailing := vxBool()
	vxFinalTrailingData(trailing)
	msg := vxConcretizeLen(vxStr(vxParam("msglen", 8)))
	vxAssume(vxAsciiText(msg))
	ev := []models.AuditEvidence{{Function: "f", RiskScore: 12, StructuralDelta: "Calls+2", AddedOperations: "call"}}

	res, err := CallLLM(msg, ev, "key", "gpt-x", vxAPIBase())

	acceptable := vxAnd(vxStrEq(verdict, "MATCH"), vxAnd(!vxContainsFold(evidence, "ignore previous"), !vxContainsFold(evidence, "system prompt")))
	mayPass := false
	if !nonceFails && gotS && sentParses && sentSafe && gotF && finalParses && !trailing {
		mayPass = acceptable
	}
	passed := false
	if err == nil {
		passed = vxStrEq(res.Verdict, "MATCH")
	}
	vxAssert("match-only-when-justified", vxImplies(passed, mayPass))
	vxAssert("justified-match-is-delivered", vxImplies(mayPass, passed))
	vxCover("a-pass-is-reachable", passed)
	if err != nil {
		vxAssert("errors-carry-error-verdict", vxStrEq(res.Verdict, "ERROR"))
		vxCover("error-reachable", true)
	}
	if gotS && sentParses && !sentSafe && !nonceFails {
		vxAssert("unsafe-screen-is-lie", vxAnd(err == nil, vxStrEq(res.Verdict, "LIE")))
		vxCover("unsafe-screen-reachable", true)
	}
	// a verdict outside the whitelist, or forbidden phrases, never comes back as MATCH/LIE from the model
	if err == nil && !nonceFails && gotS && sentParses && sentSafe && gotF && finalParses && !trailing {
		vxAssert("bad-output-is-suspicious", vxImplies(!acceptable, !vxStrEq(res.Verdict, "MATCH")))
	}
}

// VerifC13_Envelope: the commit message reaches the prompt only inside the JSON-encoded object,
// between BEGIN/END markers that carry the random nonce.
func VerifC13_Envelope() {
	generateNonceFunc = func(int) (string, error) { return "0123456789abcdef", nil }
	msg := vxConcretizeLen(vxStr(vxParam("msglen", 8)))
	vxAssume(vxAsciiText(msg))
	ev := []models.AuditEvidence{{Function: "f", RiskScore: 12}}
	_, payload, err := buildModernPrompts(msg, ev)
	vxAssert("no-error", err == nil)
	obj := struct {
		CommitMessage string                 `json:"untrusted_commit_message"`
		DiffEvidence  []models.AuditEvidence `json:"diff_evidence"`
	}{msg, ev}
	j, _ := json.MarshalIndent(obj, "", "  ")
	want := "### BEGIN DATA [0123456789abcdef] ###\n" + string(j) + "\n### END DATA [0123456789abcdef] ###"
	vxAssert("payload-is-marker-json-marker", vxHasPrefix(payload, want))
	vxCover("envelope-reachable", true)
}
