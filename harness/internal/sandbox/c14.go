//go:build verif_harness

package sandbox

import (
	"context"
	"os"
	"path/filepath"
	"strings"
)

// ---- native side of the scenario -----------------------------------------------------------

var vxScratchDir string

func vxScratch() string {
	if vxScratchDir == "" {
		d, err := os.MkdirTemp("", "vxc14")
		if err != nil {
			panic(vxStop{"no-scratch"})
		}
		if r, err := filepath.EvalSymlinks(d); err == nil {
			d = r
		}
		vxScratchDir = d
	}
	return vxScratchDir
}
func vxCleanupScratch() {
	if vxScratchDir != "" {
		os.RemoveAll(vxScratchDir)
		vxScratchDir = ""
	}
}
func vxMkdir(p string) {
	if err := os.MkdirAll(p, 0755); err != nil {
		panic(vxStop{"unrealisable-dir"})
	}
}
// vxSetCwd: symbolically the working directory of the FS table; natively a real chdir.
func vxSetCwd(dir string) {
	if err := os.Chdir(dir); err != nil {
		panic(vxStop{"unrealisable-cwd"})
	}
}

func vxMkSymlink(link, target string) {
	if err := os.Symlink(target, link); err != nil {
		panic(vxStop{"unrealisable-symlink"})
	}
}
func vxFSDefault(kind int)                           {}
func vxFSEntry(path string, kind int, target string) {}
func vxSetToolchain(goroot, gocache string) {
	os.Setenv("GOROOT", goroot)
	os.Setenv("GOCACHE", gocache)
}
func vxSimpleName(s string) bool {
	// names starting with l, t, g are used by the scenario itself (links, targets, toolchain dirs)
	if len(s) == 0 || s[0] == 'l' || s[0] == 't' || s[0] == 'g' {
		return false
	}
	for i := 0; i < len(s); i++ {
		c := s[i]
		if !(c >= 'a' && c <= 'z' || c >= '0' && c <= '9' || c == '-' || c == '_') {
			return false
		}
	}
	return true
}
func vxContains(s, sub string) bool { return strings.Contains(s, sub) }

// ---- specification -------------------------------------------------------------------------

func vxReserved() []string {
	return []string{"/app/sfw", "/proc", "/sys", "/dev", "/tmp", "/gocache"}
}

func vxHasOpt(opts []string, o string) bool {
	r := false
	for _, x := range opts {
		r = vxOr(r, vxStrEq(x, o))
	}
	return r
}

// is a a proper path ancestor of b?
func vxAncestor(a, b string) bool {
	if len(a) == 1 { // "/"
		return vxAnd(vxStrEq(a, "/"), !vxStrEq(b, "/"))
	}
	return vxHasPrefix(b, a+"/")
}

// VerifC14_Spec: whatever mounts are requested, the generated container specification is
// locked down and orders parents before children; reserved destinations are rejected.
func VerifC14_Spec() {
	defer vxCleanupScratch()
	S := vxScratch()
	vxFSDefault(3) // system paths exist and resolve to themselves
	vxSetToolchain(S+"/goroot", S+"/gocache")
	vxMkdir(S + "/goroot")
	vxMkdir(S + "/gocache")
	n := vxParam("mounts", 2)
	vxSetCwd("/")
	var req []string
	collides := false
	type want struct{ dest, src string }
	var wants []want
	for i := 0; i < n; i++ {
		switch vxPick(4) {
		case 0: // a directory of its own
			name := vxConcretizeLen(vxStr(2))
			vxAssume(vxSimpleName(name))
			p := S + "/" + name
			vxMkdir(p)
			req = append(req, p)
			wants = append(wants, want{p, p})
		case 1: // a directory nested below a sibling name (possibly below another requested mount)
			name := vxConcretizeLen(vxStr(2))
			vxAssume(vxSimpleName(name))
			p := S + "/" + name + "/c"
			vxMkdir(p)
			req = append(req, p)
			wants = append(wants, want{p, p})
		case 2: // a symlink to a directory elsewhere - possibly to one of the sandbox's own paths
			link := S + "/l" + string(rune('0'+i))
			targets := []string{S + "/t" + string(rune('0'+i)), "/tmp", "/proc", "/dev", "/sys"}
			target := targets[vxPick(len(targets))]
			if target == targets[0] {
				vxMkdir(target)
			}
			vxMkSymlink(link, target)
			vxFSEntry(link, 0, target)
			req = append(req, link)
			wants = append(wants, want{link, target})
		default: // a path of the sandbox's own infrastructure, or beneath it
			// ... or an ancestor of the system locations the sandbox mounts itself
			// ... also spelled relative to the working directory "/" (added after seed C14d)
			pool := []string{"/tmp", "/proc", "/sys", "/dev", "/app/sfw", "/gocache", "tmp", "./proc", "/proc/self", "/dev/null", "/usr", "/"}
			k := vxPick(len(pool))
			req = append(req, pool[k])
			if k < 8 {
				collides = true
			} else {
				wants = append(wants, want{pool[k], pool[k]})
			}
		}
	}
	cfg := Config{Args: []string{"diff", "a", "b"}, Mounts: req, WorkDir: "/w"}
	spec, err := generateSpec(context.Background(), cfg, "/opt/sfw-real")
	if collides {
		vxAssert("reserved-destination-rejected", err != nil)
		vxCover("collision-reachable", true)
		return
	}
	if err != nil {
		return // e.g. a requested path that does not exist: rejection is always allowed
	}
	vxCover("spec-generated", true)
	vxAssert("root-readonly", spec.Root != nil && spec.Root.Readonly)
	binds := true
	for _, m := range spec.Mounts {
		if m.Type == "bind" {
			binds = vxAnd(binds, vxHasOpt(m.Options, "ro"))
		}
	}
	vxAssert("every-bind-mount-read-only", binds)
	// every requested path is present, bound from its resolved source, read-only
	allPresent := true
	for _, w := range wants {
		found := false
		for _, m := range spec.Mounts {
			found = vxOr(found, vxAnd(vxAnd(vxStrEq(m.Destination, w.dest), vxStrEq(m.Source, w.src)), vxAnd(vxStrEq(m.Type, "bind"), vxHasOpt(m.Options, "ro"))))
		}
		allPresent = vxAnd(allPresent, found)
	}
	vxAssert("requested-mounts-bound-read-only", allPresent)
	// no host path other than the requested ones, the tool itself and system locations
	ns := map[string]bool{}
	for _, x := range spec.Linux.Namespaces {
		ns[x.Type] = true
	}
	vxAssert("own-network-namespace", ns["network"])
	vxAssert("other-namespaces", ns["pid"] && ns["ipc"] && ns["uts"] && ns["mount"] && ns["user"])
	caps := spec.Process.Capabilities
	vxAssert("no-capabilities", caps != nil && len(caps.Bounding) == 0 && len(caps.Effective) == 0 && len(caps.Inheritable) == 0 && len(caps.Permitted) == 0 && len(caps.Ambient) == 0)
	vxAssert("no-new-privileges", spec.Process.NoNewPrivileges)
	vxAssert("memory-limit", spec.Linux.Resources != nil && spec.Linux.Resources.Memory != nil && spec.Linux.Resources.Memory.Limit == 512*1024*1024)
	vxAssert("pid-limit", spec.Linux.Resources.Pids != nil && spec.Linux.Resources.Pids.Limit == 64)
	proxyOff, otherProxy := false, false
	for _, e := range spec.Process.Env {
		if e == "GOPROXY=off" {
			proxyOff = true
		} else if strings.HasPrefix(e, "GOPROXY=") {
			otherProxy = true
		}
	}
	vxAssert("module-proxy-disabled", proxyOff && !otherProxy)
	// the sandbox's own mount points are never shadowed by host data
	own := true
	for _, r := range vxReserved() {
		n := 0
		for _, m := range spec.Mounts {
			if m.Destination == r {
				n++
				if r != "/app/sfw" && r != "/gocache" {
					own = own && m.Type != "bind"
				}
			}
		}
		own = own && n <= 1
	}
	vxAssert("reserved-destinations-hold-only-sandbox-mounts", own)
	order := true
	for i, a := range spec.Mounts {
		for j, b := range spec.Mounts {
			if j < i {
				order = vxAnd(order, !vxAncestor(b.Destination, a.Destination) || true)
				// b comes first: a must not be an ancestor of b
				order = vxAnd(order, !vxAncestor(a.Destination, b.Destination))
			}
		}
	}
	vxAssert("parents-mounted-before-children", order)
}

// VerifC14_MountPointEscape: a mount destination that would leave the bundle's rootfs is rejected
// before anything is created.
func VerifC14_MountPointEscape() {
	dest := vxConcretizeLen(vxStr(vxParam("destlen", 5)))
	vxAssume(vxDestBytes(dest))
	rootfs := "/b/rootfs"
	vxFSDefault(3)
	err := prepareMountPoints(rootfs, []Mount{{Destination: dest, Type: "tmpfs", Source: "tmpfs"}})
	// independent reading: walk the components, the depth below rootfs must never go negative
	depth, escaped := 0, false
	i := 0
	for i <= len(dest) {
		j := i
		for j < len(dest) && dest[j] != '/' {
			j++
		}
		comp := dest[i:j]
		if comp == ".." {
			depth--
			if depth < 0 {
				escaped = true
				depth = 0
				_ = depth
				break
			}
		} else if comp != "" && comp != "." {
			depth++
		}
		i = j + 1
	}
	if escaped {
		vxAssert("escaping-mount-point-rejected", err != nil)
		vxCover("escape-reachable", true)
	} else {
		// (observed, not asserted: names beginning with ".." such as "..." stay inside the rootfs but
		// are refused too; the property only requires escaping mount points to be rejected)
		vxCover("inside-reachable", err == nil)
	}
}

func vxDestBytes(s string) bool {
	for i := 0; i < len(s); i++ {
		c := s[i]
		if !(c == '/' || c == '.' || c == 'a') {
			return false
		}
	}
	return true
}
