//go:build verif_harness

package cli

import (
	"io"
)

// vxAuditScenario fixes what the sandboxed diff and the LLM client answer (symbolic run only).
func vxAuditScenario(sandboxFails, parses bool, risk0, risk1 int, callFails bool, verdict string) {}
func vxVerdictBytes(s string) bool {
	for i := 0; i < len(s); i++ {
		if s[i] < 0x20 || s[i] >= 0x7f {
			return false
		}
	}
	return true
}

// VerifC13_RunAudit: the audit exits 0 only when the sandboxed diff ran and parsed and either no
// high-risk change was found or the client returned, without error, the verdict that is exactly
// "MATCH". llm.CallLLM is replaced by its contract (proved by the llm harnesses): on error the
// verdict is ERROR; otherwise it is the provider's verdict, whose upper-casing is whitelisted.
func VerifC13_RunAudit() {
	if !vxSymbolic() {
		return // the real sandbox and provider cannot be scripted natively from here
	}
	sandboxFails, parses, callFails := vxBool(), vxBool(), vxBool()
	risk0, risk1 := vxIntRange(0, 40), vxIntRange(0, 40)
	verdict := vxStr(10)
	vxAssume(vxVerdictBytes(verdict))
	vxAuditScenario(sandboxFails, parses, risk0, risk1, callFails, verdict)
	code, err := RunAudit(io.Discard, "old.go", "new.go", "msg", "key", "gpt-x", "http://vx")
	highRisk := risk0 >= 10 || risk1 >= 10
	pass := code == 0
	justified := false
	if !sandboxFails && parses {
		if !highRisk {
			justified = true
		} else if !callFails {
			justified = vxStrEq(verdict, "MATCH")
		}
	}
	vxAssert("exit-zero-only-when-justified", vxImplies(pass, justified))
	vxAssert("exit-zero-has-no-error", vxImplies(pass, err == nil))
	vxAssert("justified-pass-exits-zero", vxImplies(justified, pass))
	vxCover("pass-reachable", pass)
	vxCover("lowercase-verdict-reachable", vxAnd(vxStrEq(verdict, "match"), !pass))
}
