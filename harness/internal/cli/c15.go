//go:build verif_harness

package cli

import (
	"errors"

	"github.com/BlackVectorOps/semantic_firewall/v3/pkg/diff"
	"golang.org/x/tools/go/packages"
)

// ---- C15, second call site: cli.loadPackagesWithDeps ---------------------------------------
// The loader is an injected interface, so the harness supplies one that records Config.Env and
// fails. os.Environ and os.Stat are engine stubs (vxSetEnviron / vxFSDefault / vxStatIsDir);
// natively they cannot be forced, so counterexamples are confirmed by concrete re-execution of
// the SSA (EngineReplay).

func vxSetEnviron(env []string) { panic(vxStop{"engine-only"}) }
func vxFSDefault(kind int)      { panic(vxStop{"engine-only"}) }
func vxStatIsDir(d bool)        { panic(vxStop{"engine-only"}) }

func vxAsciiEntry(s string) bool {
	for i := 0; i < len(s); i++ {
		if s[i] == 0 || s[i] >= 0x80 {
			return false
		}
	}
	return len(s) > 0
}

type vxEnvLoader struct{ envs [][]string }

func (l *vxEnvLoader) Load(cfg *packages.Config, patterns ...string) ([]*packages.Package, error) {
	l.envs = append(l.envs, cfg.Env)
	return nil, errors.New("loader unavailable")
}

// VerifC15_ScanLoadSite: for a directory target and for a file target, with and without
// transitive dependencies, every Load issued by loadPackagesWithDeps carries exactly
// diff.GetHardenedEnv()'s result under the same ambient environment.
func VerifC15_ScanLoadSite() {
	maxLen := vxParam("maxlen", 13)
	e := vxStr(maxLen)
	vxAssume(vxAsciiEntry(e))
	vxSetEnviron([]string{e})
	vxFSDefault(3)
	isDir := vxBool()
	vxStatIsDir(isDir)
	transitive := vxBool()
	want := diff.GetHardenedEnv()

	l := &vxEnvLoader{}
	_, err := loadPackagesWithDeps(l, "/a/x.go", transitive)

	vxCover("dir-target", isDir)
	vxCover("file-target", !isDir)
	vxCover("loader-failure-propagates", err != nil)
	vxAssert("loader-consulted", len(l.envs) >= 1)
	for k := range l.envs {
		got := l.envs[k]
		vxAssert("env-length", len(got) == len(want))
		same := true
		for i := 0; i < len(got) && i < len(want); i++ {
			same = vxAnd(same, vxStrEq(got[i], want[i]))
		}
		vxAssert("env-is-hardened-env", same)
	}
}
