//go:build verif_harness

package cli

import (
	"fmt"
	"io/fs"
	"os"
	"path/filepath"
	"time"
)

// A small in-memory FileSystem (the repository's own abstraction) whose names, sizes and
// failures are symbolic. Its WalkDir follows the documented contract of filepath.WalkDir
// (pre-order, SkipDir prunes the directory), and is ordinary Go code: interpreted symbolically by
// the engine and executed as-is by the native replay.

type vxNode struct {
	name     string
	dir      bool
	size     int64
	statErr  bool
	readErr  bool
	badSrc   bool
	children []*vxNode
}

type vxInfo struct{ n *vxNode }

func (i vxInfo) Name() string       { return i.n.name }
func (i vxInfo) Size() int64        { return i.n.size }
func (i vxInfo) Mode() fs.FileMode  { return 0644 }
func (i vxInfo) ModTime() time.Time { return time.Time{} }
func (i vxInfo) IsDir() bool        { return i.n.dir }
func (i vxInfo) Sys() any           { return nil }

type vxEntry struct{ n *vxNode }

func (e vxEntry) Name() string               { return e.n.name }
func (e vxEntry) IsDir() bool                { return e.n.dir }
func (e vxEntry) Type() fs.FileMode          { return 0 }
func (e vxEntry) Info() (fs.FileInfo, error) { return vxInfo{e.n}, nil }

type vxFS struct {
	root     *vxNode
	rootPath string
}

func (f *vxFS) find(path string) *vxNode {
	var res *vxNode
	f.walk(f.rootPath, f.root, func(p string, n *vxNode) bool {
		if vxStrEq(p, path) {
			res = n
		}
		return true
	})
	return res
}

func (f *vxFS) walk(path string, n *vxNode, visit func(string, *vxNode) bool) {
	if !visit(path, n) {
		return
	}
	for _, c := range n.children {
		f.walk(path+"/"+c.name, c, visit)
	}
}

func (f *vxFS) Stat(name string) (os.FileInfo, error) {
	n := f.find(name)
	if n == nil {
		return nil, os.ErrNotExist
	}
	if n.statErr {
		return nil, fmt.Errorf("stat %s: input/output error", name)
	}
	return vxInfo{n}, nil
}
func (f *vxFS) Open(name string) (fs.File, error) { return nil, os.ErrNotExist }
func (f *vxFS) Getwd() (string, error)            { return "/", nil }
func (f *vxFS) Abs(path string) (string, error)   { return path, nil }
func (f *vxFS) ReadFile(name string) ([]byte, error) {
	n := f.find(name)
	if n == nil {
		return nil, os.ErrNotExist
	}
	if n.readErr {
		return nil, fmt.Errorf("read %s: permission denied", name)
	}
	if n.badSrc {
		return []byte("this is not go"), nil
	}
	return []byte("package p\n\nfunc F() int { return 1 }\n"), nil
}
func (f *vxFS) WalkDir(root string, fn fs.WalkDirFunc) error {
	var rec func(path string, n *vxNode) error
	rec = func(path string, n *vxNode) error {
		err := fn(path, vxEntry{n}, nil)
		if err != nil {
			if err == filepath.SkipDir && n.dir {
				return nil
			}
			return err
		}
		for _, c := range n.children {
			if e := rec(path+"/"+c.name, c); e != nil {
				if e == filepath.SkipDir {
					break // SkipDir from a file: skip the rest of this directory
				}
				return e
			}
		}
		return nil
	}
	err := rec(root, f.root)
	if err == filepath.SkipDir {
		return nil
	}
	return err
}

func vxNameBytes(s string) bool {
	for i := 0; i < len(s); i++ {
		c := s[i]
		if !(c >= 'a' && c <= 'z' || c >= 'A' && c <= 'Z' || c == '.' || c == '_') {
			return false
		}
	}
	return len(s) > 0
}

func vxNameOf(lens []int) string {
	n := vxStrN(lens[vxPick(len(lens))])
	vxAssume(vxNameBytes(n))
	return n
}

func vxHasSuffix(s, suf string) bool {
	return len(s) >= len(suf) && s[len(s)-len(suf):] == suf
}

// the property's reading of which files are analysed
func vxWanted(file string, dirs ...string) bool {
	w := vxAnd(vxHasSuffix(file, ".go"), !vxHasSuffix(file, "_test.go"))
	for _, d := range dirs {
		pruned := vxOr(vxStrEq(d, "vendor"), vxAnd(len(d) > 1, vxHasPrefix(d, ".")))
		w = vxAnd(w, !pruned)
	}
	return w
}

// VerifC16_Collect: a directory target yields exactly the non-test Go files outside vendor and
// hidden directories, whatever the names are.
func VerifC16_Collect() {
	dirLens := []int{1, 2, 6, 7}
	fileLens := []int{3, 4, 9, 10}
	d1 := &vxNode{name: vxNameOf(dirLens), dir: true}
	d2 := &vxNode{name: vxNameOf(dirLens), dir: true}
	f1 := &vxNode{name: vxNameOf(fileLens)}
	f2 := &vxNode{name: vxNameOf(fileLens)}
	f3 := &vxNode{name: vxNameOf(fileLens)}
	vxAssume(!vxStrEq(f1.name, d1.name)) // siblings have distinct names
	vxAssume(!vxStrEq(f2.name, d2.name))
	d2.children = []*vxNode{f3}
	d1.children = []*vxNode{d2, f2}
	root := &vxNode{name: "r", dir: true, children: []*vxNode{d1, f1}}
	fsys := &vxFS{root: root, rootPath: "r"}

	files, err := CollectFiles(fsys, "r")
	vxAssert("walk-succeeds", err == nil)
	type exp struct {
		path string
		want bool
	}
	exps := []exp{
		{"r/" + f1.name, vxWanted(f1.name)},
		{"r/" + d1.name + "/" + f2.name, vxWanted(f2.name, d1.name)},
		{"r/" + d1.name + "/" + d2.name + "/" + f3.name, vxWanted(f3.name, d1.name, d2.name)},
	}
	complete, sound := true, true
	for _, e := range exps {
		in := false
		for _, f := range files {
			in = vxOr(in, vxStrEq(f, e.path))
		}
		complete = vxAnd(complete, vxImplies(e.want, in))
		sound = vxAnd(sound, vxImplies(in, e.want))
	}
	vxAssert("no-analysable-file-is-dropped", complete)
	vxAssert("only-analysable-files-are-collected", sound)
	vxAssert("nothing-else-collected", len(files) <= 3)
	vxCover("three-files-collected", len(files) == 3)
	vxCover("a-directory-is-pruned", len(files) == 1)
}

// VerifC16_FileErrors: a file that is too large, unreadable or not loadable is reported with an
// error message, and strict mode turns any such report into a failing run.
func VerifC16_FileErrors() {
	f1 := &vxNode{name: "a.go", size: vxInt64(), statErr: vxBool(), readErr: vxBool(), badSrc: vxBool()}
	f2 := &vxNode{name: "b.go", size: vxInt64(), statErr: vxBool(), readErr: vxBool(), badSrc: vxBool()}
	vxAssume(vxAnd(f1.size >= 0, f2.size >= 0))
	root := &vxNode{name: "r", dir: true, children: []*vxNode{f1, f2}}
	fsys := &vxFS{root: root, rootPath: "r"}
	strict := vxBool()

	out, hasErrors, err := ProcessFilesParallel(fsys, []string{"r/a.go", "r/b.go"}, strict, nil)
	vxAssert("parallel-run-returns", err == nil && len(out) == 2)
	anyBad := false
	for i, n := range []*vxNode{f1, f2} {
		bad := n.statErr || n.size > 10*1024*1024 || n.readErr || n.badSrc
		if !bad {
			// every function the loader found for the file is reported (the loader stub returns three,
			// one of them attributed - as a //line directive does - to another file name)
			vxAssert("every-loaded-function-is-reported", len(out[i].Functions) == 3)
		}
		if bad {
			anyBad = true
			vxAssert("unanalysable-file-reported-with-error", out[i].ErrorMessage != "" && out[i].File == "r/"+n.name)
		}
		vxAssert("result-slot-matches-file", out[i].File == "r/"+n.name)
	}
	if anyBad {
		vxAssert("errors-are-flagged", hasErrors)
		vxCover("bad-file-reachable", true)
	}
}

// VerifC16_Strict: in strict mode any per-file error makes the whole check fail.
func VerifC16_Strict() {
	f1 := &vxNode{name: "a.go", size: vxInt64(), statErr: vxBool(), readErr: vxBool(), badSrc: vxBool()}
	f2 := &vxNode{name: "b.go", size: 10}
	vxAssume(f1.size >= 0)
	root := &vxNode{name: "r", dir: true, children: []*vxNode{f1, f2}}
	fsys := &vxFS{root: root, rootPath: "r"}
	strict := vxBool()
	err := RunCheckLogic(fsys, "r", strict, false, "")
	// note: the walk itself stats nothing, so a.go is always collected
	bad := f1.statErr || f1.size > 10*1024*1024 || f1.readErr || f1.badSrc
	if strict && bad {
		vxAssert("strict-run-fails-on-file-error", err != nil)
		vxCover("strict-failure-reachable", true)
	}
	if !bad {
		vxAssert("clean-run-succeeds", err == nil)
	}
}

// VerifC10_WorkerOrder: the per-file workers of a check run in two independently chosen orders
// (each worker to completion); the reports, the error flag and - in strict mode - the outcome must
// be the same. (Natively the two runs are two real concurrent runs.)
func VerifC10_WorkerOrder() {
	mk := func() (*vxFS, []*vxNode) {
		return nil, nil
	}
	_ = mk
	f1 := &vxNode{name: "a.go", size: 10, badSrc: vxBool()}
	f2 := &vxNode{name: "b.go", size: 10, badSrc: vxBool()}
	f3 := &vxNode{name: "c.go", size: 10, readErr: vxBool()}
	root := &vxNode{name: "r", dir: true, children: []*vxNode{f1, f2, f3}}
	fsys := &vxFS{root: root, rootPath: "r"}
	strict := vxBool()
	files := []string{"r/a.go", "r/b.go", "r/c.go"}
	o1, e1, err1 := ProcessFilesParallel(fsys, files, strict, nil)
	o2, e2, err2 := ProcessFilesParallel(fsys, files, strict, nil)
	vxAssert("same-outcome", (err1 == nil) == (err2 == nil) && e1 == e2 && len(o1) == len(o2))
	if len(o1) == len(o2) {
		for i := range o1 {
			same := o1[i].File == o2[i].File && o1[i].ErrorMessage == o2[i].ErrorMessage && len(o1[i].Functions) == len(o2[i].Functions)
			vxAssert("same-report-for-every-file-under-both-worker-orders", same)
		}
	}
	vxCover("a-file-fails", e1)
}
