package main

func init() {
	checks["C07"] = func(c *CheckCtx) {
		cfgs := []*HarnessCfg{
			{Name: "VerifC07_Crash", Pkg: pebPkg, Solver: "z3", MaxPaths: 2000000, EngineReplay: true},
		}
		// a longer write history on one ID: it is added twice (solver-chosen, possibly identical index keys),
		// then updated; the store is then restarted (cleanly or by power loss)
		cfgs = append(cfgs, &HarnessCfg{Name: "VerifC07_Crash", Pkg: pebPkg, Solver: "z3", MaxPaths: 2000000, EngineReplay: true, Params: map[string]int64{"samehist": 1}})
		c.Assumptions = append(c.Assumptions, pebbleAssumptions...)
		c.Assumptions = append(c.Assumptions,
			"crash points are at the granularity of the store's own commits (batch.Commit / db.Set): the machine dies just before the k-th commit of the interrupted mutation, k in {0,1,none}; commits made with pebble.Sync survive, others are lost; crash points inside Pebble (WAL, manifest, individual file-system calls) are NOT covered - that part of the property is outside this technique",
			"pre-state: up to 1 signature with a solver-chosen ID, or (second configuration) one ID that was added twice with solver-chosen, possibly identical, index keys and is then updated and the store restarted without a crash inside the call; mutations: add/update, batch add, delete, false-positive mark, rebuild (two commits for this bound; the 1000-entry chunk boundary is not reached)",
			"native replays can only realise 'no crash'; a counterexample that needs a mid-mutation crash is confirmed by concrete re-execution of the code's SSA with the model's values")
		c.runModeT([]string{"pkg/storage/pebbledb"}, cfgs)
	}
}
