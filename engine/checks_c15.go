package main

func init() {
	checks["C15"] = func(c *CheckCtx) {
		params := map[string]int64{"entries": 2, "maxlen": 13}
		if c.Tier == "thorough" {
			params = map[string]int64{"entries": 3, "maxlen": 14}
		}
		cfg := &HarnessCfg{Name: "VerifC15_HardenedEnv", Pkg: repoMod + "/pkg/diff", Solver: "z3", Params: params, Unwind: 64}
		if c.Tier == "thorough" {
			cfg.Cross = "cvc5"
		}
		site := &HarnessCfg{Name: "VerifC15_LoadSite", Pkg: repoMod + "/pkg/diff", Solver: "z3", EngineReplay: true,
			Params: map[string]int64{"entries": 1, "maxlen": params["maxlen"]}, Unwind: 64}
		if c.Tier == "thorough" {
			site.Params["entries"] = 2
		}
		scan := &HarnessCfg{Name: "VerifC15_ScanLoadSite", Pkg: repoMod + "/internal/cli", Solver: "z3", EngineReplay: true,
			Params: map[string]int64{"maxlen": params["maxlen"]}, Unwind: 64}
		c.Assumptions = append(c.Assumptions,
			"environment entries are non-empty, NUL-free, 7-bit ASCII (case mapping modelled for ASCII only; non-ASCII keys such as the long-s spelling are outside the claim)",
			"an entry defines key K iff it starts with K followed by '='; effective value = value of the last defining entry, checked under exact-case and ASCII-case-insensitive key comparison",
			"os.Environ is a stub returning the symbolic entries (stable across the two calls GetHardenedEnv makes)",
			"bounds: entries and maxlen as listed in coverage.harnesses[].params; larger environments are outside the claim",
			"call-site clause (VerifC15_LoadSite): packages.Load is replaced by a recorder of Config.Env that always fails; every call issued by diff.loadPackagesFromSource must carry exactly GetHardenedEnv()'s result (1 ambient entry, fixed file name /a/x.go); counterexamples are confirmed by concrete re-execution of the SSA because the real loader cannot be observed natively",
			"second call site (VerifC15_ScanLoadSite): cli.loadPackagesWithDeps with a recording PackageLoader that always fails, os.Stat succeeding with a solver-chosen IsDir answer, solver-chosen transitive flag, fixed target /a/x.go, 1 ambient entry; same assertion; engine replay",
			"that RunScan/RunIndex inject RealPackageLoader (a one-line wrapper of packages.Load) is not re-checked")
		c.runModeT([]string{"pkg/diff", "internal/cli"}, []*HarnessCfg{cfg, site, scan})
	}
}
