package main

func init() {
	checks["C15"] = func(c *CheckCtx) {
		params := map[string]int64{"entries": 2, "maxlen": 13}
		if c.Tier == "thorough" {
			params = map[string]int64{"entries": 3, "maxlen": 14}
		}
		cfg := &HarnessCfg{Name: "VerifC15_HardenedEnv", Pkg: repoMod + "/pkg/diff", Solver: "z3", Params: params, Unwind: 64}
		if c.Tier == "thorough" {
			cfg.Cross = "cvc5"
		}
		c.Assumptions = append(c.Assumptions,
			"environment entries are non-empty, NUL-free, 7-bit ASCII (case mapping modelled for ASCII only; non-ASCII keys such as the long-s spelling are outside the claim)",
			"an entry defines key K iff it starts with K followed by '='; effective value = value of the last defining entry, checked under exact-case and ASCII-case-insensitive key comparison",
			"os.Environ is a stub returning the symbolic entries (stable across the two calls GetHardenedEnv makes)",
			"bounds: entries and maxlen as listed in coverage.harnesses[].params; larger environments are outside the claim",
			"that both packages.Load call sites pass GetHardenedEnv() as Env is not re-checked here")
		c.runModeT([]string{"pkg/diff"}, []*HarnessCfg{cfg})
	}
}
