package main

// A small model of the file-system calls used by jsondb.SaveDatabase: files are named cells whose
// content is a tag string; every call may fail according to a fault script; a concurrent second
// save can run, as a block, before any of the calls (interference point).

import (
	"fmt"

	"golang.org/x/tools/go/ssa"
)

type osFile struct {
	name   string
	closed bool
}

type osWorld struct {
	files   map[string]string
	faults  map[string]bool
	events  []string
	tmpSeq  int
	written map[string]bool // paths that were opened for writing directly (not via rename)
}

func (p *Path) osw() *osWorld {
	w, ok := p.stubs["osworld"].(*osWorld)
	if !ok {
		w = &osWorld{files: map[string]string{}, faults: map[string]bool{}, written: map[string]bool{}}
		p.stubs["osworld"] = w
	}
	return w
}

func (w *osWorld) fault(p *Path, in *Interp, what string) Val {
	if w.faults[what] {
		// each fault fires once (a transient failure of that call)
		delete(w.faults, what)
		return in.mkErr(concStr(what+": input/output error"), nil, "io")
	}
	return nil
}

func registerOSModel(in *Interp) {
	vxExtra["vxOSFile"] = func(in *Interp, p *Path, fr *Frame, a []Val, s ssa.CallInstruction) Val {
		p.osw().files[argStr(p, a[0])] = argStr(p, a[1])
		return nil
	}
	vxExtra["vxOSFault"] = func(in *Interp, p *Path, fr *Frame, a []Val, s ssa.CallInstruction) Val {
		if p.branch(asTerm(a[1])) {
			p.osw().faults[argStr(p, a[0])] = true
		}
		return nil
	}
	vxExtra["vxOSContent"] = func(in *Interp, p *Path, fr *Frame, a []Val, s ssa.CallInstruction) Val {
		c, ok := p.osw().files[argStr(p, a[0])]
		if !ok {
			return concStr("<missing>")
		}
		return concStr(c)
	}
	vxExtra["vxOSWrittenInPlace"] = func(in *Interp, p *Path, fr *Frame, a []Val, s ssa.CallInstruction) Val {
		return mkBool(p.osw().written[argStr(p, a[0])])
	}
	vxExtra["vxOSFileCount"] = func(in *Interp, p *Path, fr *Frame, a []Val, s ssa.CallInstruction) Val {
		return mkInt(int64(len(p.osw().files)))
	}
	I := in.intr
	fileOf := func(p *Path, v Val) *osFile {
		pt, ok := v.(*Pointer)
		if !ok || pt == nil || pt.model == nil {
			p.end("panic", "nil *os.File")
		}
		f, ok := pt.model.(*osFile)
		if !ok {
			p.end("unsupported", "unmodelled *os.File")
		}
		return f
	}
	osStat := I["os.Stat"]
	I["os.Stat"] = func(in *Interp, p *Path, fr *Frame, a []Val, s ssa.CallInstruction) Val {
		if _, active := p.stubs["osworld"]; !active {
			return osStat(in, p, fr, a, s)
		}
		in.interferencePoint(p, fr, "os.Stat")
		if e := p.osw().fault(p, in, "stat"); e != nil {
			return TupleVal{IfaceVal{}, e}
		}
		return TupleVal{IfaceVal{t: errModelType, v: &Pointer{model: &OpaqueVal{name: "fileinfo"}}}, IfaceVal{}}
	}
	I["os.CreateTemp"] = func(in *Interp, p *Path, fr *Frame, a []Val, s ssa.CallInstruction) Val {
		in.interferencePoint(p, fr, "os.CreateTemp")
		w := p.osw()
		if e := w.fault(p, in, "createtemp"); e != nil {
			return TupleVal{&Pointer{}, e}
		}
		w.tmpSeq++
		name := fmt.Sprintf("%s/tmp-%d", argStr(p, a[0]), w.tmpSeq) // unique per call (the contract of CreateTemp)
		w.files[name] = ""
		w.events = append(w.events, "create:"+name)
		return TupleVal{&Pointer{model: &osFile{name: name}}, IfaceVal{}}
	}
	I["os.OpenFile"] = func(in *Interp, p *Path, fr *Frame, a []Val, s ssa.CallInstruction) Val {
		in.interferencePoint(p, fr, "os.OpenFile")
		w := p.osw()
		if e := w.fault(p, in, "createtemp"); e != nil {
			return TupleVal{&Pointer{}, e}
		}
		name := argStr(p, a[0])
		w.files[name] = "" // O_CREATE|O_TRUNC semantics (the only way the store opens files for writing)
		w.written[name] = true
		w.events = append(w.events, "open-trunc:"+name)
		return TupleVal{&Pointer{model: &osFile{name: name}}, IfaceVal{}}
	}
	I["os.Create"] = I["os.OpenFile"]
	I["(*os.File).Name"] = func(in *Interp, p *Path, fr *Frame, a []Val, s ssa.CallInstruction) Val {
		return concStr(fileOf(p, a[0]).name)
	}
	I["(*os.File).Chmod"] = func(in *Interp, p *Path, fr *Frame, a []Val, s ssa.CallInstruction) Val {
		in.interferencePoint(p, fr, "file.Chmod")
		if e := p.osw().fault(p, in, "chmod"); e != nil {
			return e
		}
		return IfaceVal{}
	}
	I["(*os.File).Sync"] = func(in *Interp, p *Path, fr *Frame, a []Val, s ssa.CallInstruction) Val {
		in.interferencePoint(p, fr, "file.Sync")
		w := p.osw()
		if e := w.fault(p, in, "sync"); e != nil {
			return e
		}
		w.events = append(w.events, "sync:"+fileOf(p, a[0]).name)
		return IfaceVal{}
	}
	I["(*os.File).Close"] = func(in *Interp, p *Path, fr *Frame, a []Val, s ssa.CallInstruction) Val {
		in.interferencePoint(p, fr, "file.Close")
		f := fileOf(p, a[0])
		f.closed = true
		if e := p.osw().fault(p, in, "close"); e != nil {
			return e
		}
		return IfaceVal{}
	}
	I["os.Rename"] = func(in *Interp, p *Path, fr *Frame, a []Val, s ssa.CallInstruction) Val {
		in.interferencePoint(p, fr, "os.Rename")
		w := p.osw()
		if e := w.fault(p, in, "rename"); e != nil {
			return e
		}
		from, to := argStr(p, a[0]), argStr(p, a[1])
		c, ok := w.files[from]
		if !ok {
			return in.mkErr(concStr("rename: no such file or directory"), nil, "notexist")
		}
		delete(w.files, from)
		w.files[to] = c
		w.events = append(w.events, "rename:"+from+"->"+to)
		return IfaceVal{}
	}
	I["os.Remove"] = func(in *Interp, p *Path, fr *Frame, a []Val, s ssa.CallInstruction) Val {
		delete(p.osw().files, argStr(p, a[0]))
		return IfaceVal{}
	}
	// json.Encoder writing into a modelled file: a complete encoding is the tag "NEW:<n signatures>"
	encNew := I["encoding/json.NewEncoder"]
	I["encoding/json.NewEncoder"] = func(in *Interp, p *Path, fr *Frame, a []Val, s ssa.CallInstruction) Val {
		if iv, ok := a[0].(IfaceVal); ok {
			if pt, ok := iv.v.(*Pointer); ok && pt != nil {
				if f, ok := pt.model.(*osFile); ok {
					return &Pointer{model: &jsonFileEnc{f: f}}
				}
			}
		}
		if encNew != nil {
			return encNew(in, p, fr, a, s)
		}
		return &Pointer{model: &OpaqueVal{name: "json.Encoder"}}
	}
	encEncode := I["(*encoding/json.Encoder).Encode"]
	I["(*encoding/json.Encoder).Encode"] = func(in *Interp, p *Path, fr *Frame, a []Val, s ssa.CallInstruction) Val {
		pt := a[0].(*Pointer)
		je, ok := pt.model.(*jsonFileEnc)
		if !ok {
			return encEncode(in, p, fr, a, s)
		}
		in.interferencePoint(p, fr, "encoder.Encode")
		w := p.osw()
		if e := w.fault(p, in, "encode"); e != nil {
			if _, exists := w.files[je.f.name]; exists {
				w.files[je.f.name] = "PARTIAL"
			}
			return e
		}
		if _, exists := w.files[je.f.name]; exists {
			w.files[je.f.name] = "NEW"
		} else {
			// the file was renamed away under us: the bytes land in whatever now holds the inode; the
			// model keeps it simple and treats the data as written to the renamed file (complete)
		}
		return IfaceVal{}
	}
}

type jsonFileEnc struct{ f *osFile }
