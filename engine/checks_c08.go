package main

import (
	"go/types"

	"golang.org/x/tools/go/ssa"
)

const detPkg = repoMod + "/pkg/detection"

// matchSignatureContract: the proven contract of detection.MatchSignature used by the alert-level
// harnesses: per signature ID an arbitrary confidence that is NaN or in [0,1]; a symbolic
// "missing call" flag that forces confidence 0. The same signature gives the same answer again.
func matchSignatureContract(in *Interp, p *Path, fr *Frame, a []Val, s ssa.CallInstruction) Val {
	sig := a[2].(*StructVal)
	id, _ := sig.f[0].(StringVal).conc()
	key := "msig:" + id + ":" + asTerm(sig.f[9]).S // ID + NodeCount (the harnesses' version tag)
	rt := s.Common().StaticCallee().Signature.Results().At(0).Type()
	if v, ok := p.stubs[key]; ok {
		return copyVal(v)
	}
	res := zero(rt).(*StructVal)
	res.f[0] = sig.f[0] // SignatureID
	res.f[1] = sig.f[1] // SignatureName
	res.f[2] = sig.f[3] // Severity
	res.f[3] = a[1]     // MatchedFunction
	conf := p.fresh("conf", KFP, 64)
	missing := p.fresh("missing", KBool, 0)
	inRange := p.and(p.fpCmp("fp.geq", conf, mkF64(0)), p.fpCmp("fp.leq", conf, mkF64(1)))
	p.assume(p.or(p.fpIsNaN(conf), inRange))
	p.assume(p.implies(missing, p.fpCmp("fp.eq", conf, mkF64(0))))
	res.f[4] = conf
	det := res.f[5].(*StructVal)
	// CallsMissing (field 3 of MatchDetails) has one element iff `missing`
	if p.branch(missing) {
		det.f[3] = newSlice([]Val{concStr("m")})
	}
	_ = types.Typ
	p.stubs[key] = res
	return copyVal(res)
}

func init() {
	checks["C08"] = func(c *CheckCtx) {
		to := 120000
		if c.Tier == "thorough" {
			to = 600000
		}
		cfgs := []*HarnessCfg{
			{Name: "VerifC08_TopoSimilarity", Pkg: detPkg, Solver: "cvc5", TimeoutMs: to, OneShot: true},
			{Name: "VerifC08_MatchCalls", Pkg: detPkg, Solver: "z3", TimeoutMs: to, MapOrderSym: true},
			{Name: "VerifC08_MatchSignature", Pkg: detPkg, Solver: "cvc5", TimeoutMs: to, OneShot: true, Stubs: map[string]Intrinsic{
				detPkg + ".ComputeTopologySimilarity": func(in *Interp, p *Path, fr *Frame, a []Val, s ssa.CallInstruction) Val {
					v := p.fresh("toposim", KFP, 64)
					p.assume(p.and(p.fpCmp("fp.geq", v, mkF64(0)), p.fpCmp("fp.leq", v, mkF64(1))))
					return v
				},
				detPkg + ".GenerateTopologyHash": func(in *Interp, p *Path, fr *Frame, a []Val, s ssa.CallInstruction) Val { return concStr("H") },
			}},
		}
		sigs := int64(2)
		if c.Tier == "thorough" {
			sigs = 3
		}
		jcfg := &HarnessCfg{Name: "VerifC08_JSONAlerts", Pkg: repoMod + "/pkg/storage/jsondb", Solver: "cvc5", TimeoutMs: to, Params: map[string]int64{"sigs": sigs},
			Stubs: map[string]Intrinsic{detPkg + ".MatchSignature": matchSignatureContract}}
		c.Assumptions = append(c.Assumptions,
			"well-formed inputs as in the property: entropies in [0,8], tolerances >= 0 (not NaN), threshold in (0,1], block/loop/node counts in [-4, 2^20]",
			"assume-guarantee: MatchSignature is checked with ComputeTopologySimilarity replaced by its contract (a number in [0,1], discharged by VerifC08_TopoSimilarity) and the topology hash by a constant; the back-end harness uses MatchSignature's contract (NaN or [0,1]; 0 when a call is missing), discharged by VerifC08_MatchSignature",
			"call-signature keys: <=2 keys of 2 bytes; required calls <=2 of 1 byte; one 2-byte string literal and <=1 one-byte pattern; ASCII",
			"JSON back end: <=2 (thorough 3) signatures, embedded back end: 2 signatures (both tiers; 3 did not finish in 20 minutes), indexed under the scanned topology's hash; the embedded back end runs on the Pebble contract model",
			"IEEE-754 binary64, round-to-nearest-even, SMT FloatingPoint theory (cvc5)")
		// the embedded back end stays at 2 signatures in both tiers: with 3, the case splits of the ordered
		// index walk times those of the descending sort over symbolic doubles did not finish in 20 minutes
		pcfg := &HarnessCfg{Name: "VerifC08_PebbleAlerts", Pkg: pebPkg, Solver: "cvc5", TimeoutMs: to, Params: map[string]int64{"sigs": 2}, MaxPaths: 400000}
		c.runModeT([]string{"pkg/detection", "pkg/storage/jsondb", "pkg/storage/pebbledb"}, append(cfgs, jcfg, pcfg))
	}
}
