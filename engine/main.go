package main

import (
	"encoding/json"
	"flag"
	"fmt"
	"os"
	"path/filepath"
	"runtime"
	"sort"
	"strconv"
	"strings"
	"time"

	"golang.org/x/tools/go/packages"
	"golang.org/x/tools/go/ssa"
	"golang.org/x/tools/go/ssa/ssautil"
)

var repoDir = func() string {
	if d := os.Getenv("VERIF_REPO"); d != "" {
		return d
	}
	return "/repo"
}()
var verifDir = func() string {
	if d := os.Getenv("VERIF_DIR"); d != "" {
		return d
	}
	return "/verif"
}()
const repoMod = "github.com/BlackVectorOps/semantic_firewall/v3"
const harnessTag = "verif_harness"

var gWorkers = runtime.NumCPU()
var gSeed int64
var gTier = "quick"

// harnessOverlay maps virtual files under /repo to real files under /verif/harness (+ generated rt).
func harnessOverlay(pkgRels []string, workDir string) (map[string]string, error) {
	ov := map[string]string{}
	tmpl, err := os.ReadFile(filepath.Join(verifDir, "harness", "rt.go.tmpl"))
	if err != nil {
		return nil, err
	}
	for _, rel := range pkgRels {
		dir := filepath.Join(verifDir, "harness", rel)
		ents, err := os.ReadDir(dir)
		if err != nil {
			return nil, err
		}
		pkgName := ""
		for _, e := range ents {
			if !strings.HasSuffix(e.Name(), ".go") {
				continue
			}
			src, _ := os.ReadFile(filepath.Join(dir, e.Name()))
			for _, line := range strings.Split(string(src), "\n") {
				if strings.HasPrefix(line, "package ") {
					pkgName = strings.TrimSpace(strings.TrimPrefix(line, "package "))
					break
				}
			}
			virt := filepath.Join(repoDir, rel, "zz_verif_"+e.Name())
			if strings.HasSuffix(e.Name(), "_test.go") {
				virt = filepath.Join(repoDir, rel, "zz_verif_"+e.Name())
			}
			ov[virt] = filepath.Join(dir, e.Name())
		}
		if pkgName == "" {
			return nil, fmt.Errorf("no harness files for %s", rel)
		}
		rt := strings.Replace(string(tmpl), "package PKG", "package "+pkgName, 1)
		rtPath := filepath.Join(workDir, strings.ReplaceAll(rel, "/", "_")+"_rt.go")
		if err := os.WriteFile(rtPath, []byte(rt), 0644); err != nil {
			return nil, err
		}
		ov[filepath.Join(repoDir, rel, "zz_verif_rt.go")] = rtPath
	}
	return ov, nil
}

// loadInterpDir loads a stand-alone (generated) module directory into the engine.
func loadInterpDir(dir string, patterns []string, prefixes []string) (*Interp, error) {
	cfg := &packages.Config{
		Mode:       packages.LoadAllSyntax,
		Dir:        dir,
		BuildFlags: []string{"-tags=" + harnessTag},
		Env:        append(os.Environ(), "GOFLAGS=-mod=mod", "GOPROXY=off"),
	}
	pkgs, err := packages.Load(cfg, patterns...)
	if err != nil {
		return nil, err
	}
	nerr := 0
	packages.Visit(pkgs, nil, func(pk *packages.Package) {
		for _, e := range pk.Errors {
			if nerr < 10 {
				fmt.Fprintf(os.Stderr, "load error: %v\n", e)
			}
			nerr++
		}
	})
	if nerr > 0 {
		return nil, fmt.Errorf("%d package load errors in generated subject package", nerr)
	}
	prog, _ := ssautil.AllPackages(pkgs, ssa.InstantiateGenerics)
	in := &Interp{prog: prog, pkgs: pkgs, ssaPkgs: map[string]*ssa.Package{}, intr: map[string]Intrinsic{},
		repoPrefix: prefixes, globalInit: map[*ssa.Global]Val{}, built: map[*ssa.Package]bool{}}
	for _, sp := range prog.AllPackages() {
		in.ssaPkgs[sp.Pkg.Path()] = sp
		if in.isRepoPkg(sp) {
			in.ensureBuilt(sp)
		}
	}
	in.registerIntrinsics()
	registerModels(in)
	in.runInits()
	return in, nil
}

func loadInterp(pkgRels []string, extraOverlay map[string]string, extraPatterns []string, workDir string) (*Interp, error) {
	ov, err := harnessOverlay(pkgRels, workDir)
	if err != nil {
		return nil, err
	}
	for k, v := range extraOverlay {
		ov[k] = v
	}
	overlay := map[string][]byte{}
	for virt, real := range ov {
		b, err := os.ReadFile(real)
		if err != nil {
			return nil, err
		}
		overlay[virt] = b
	}
	var patterns []string
	for _, rel := range pkgRels {
		patterns = append(patterns, "./"+rel)
	}
	patterns = append(patterns, extraPatterns...)
	cfg := &packages.Config{
		Mode:       packages.LoadAllSyntax,
		Dir:        repoDir,
		Overlay:    overlay,
		BuildFlags: []string{"-tags=" + harnessTag},
		Env:        append(os.Environ(), "GOFLAGS=-mod=mod", "GOPROXY=off"),
	}
	t0 := time.Now()
	pkgs, err := packages.Load(cfg, patterns...)
	if err != nil {
		return nil, err
	}
	nerr := 0
	packages.Visit(pkgs, nil, func(pk *packages.Package) {
		for _, e := range pk.Errors {
			if nerr < 10 {
				fmt.Fprintf(os.Stderr, "load error: %v\n", e)
			}
			nerr++
		}
	})
	if nerr > 0 {
		return nil, fmt.Errorf("%d package load errors (harness does not compile against the current tree)", nerr)
	}
	prog, _ := ssautil.AllPackages(pkgs, ssa.InstantiateGenerics)
	in := &Interp{prog: prog, pkgs: pkgs, ssaPkgs: map[string]*ssa.Package{}, intr: map[string]Intrinsic{},
		repoPrefix: []string{repoMod}, globalInit: map[*ssa.Global]Val{}, built: map[*ssa.Package]bool{}}
	for _, sp := range prog.AllPackages() {
		in.ssaPkgs[sp.Pkg.Path()] = sp
		if in.isRepoPkg(sp) {
			in.ensureBuilt(sp)
		}
	}
	in.registerIntrinsics()
	registerModels(in)
	if os.Getenv("VERIF_DEBUG") != "" {
		fmt.Fprintf(os.Stderr, "loaded %d packages in %.1fs\n", len(prog.AllPackages()), time.Since(t0).Seconds())
	}
	in.runInits()
	return in, nil
}

// ---------------------------------------------------------------- evidence

type Evidence struct {
	PropertyID  string                 `json:"property_id"`
	Tier        string                 `json:"tier"`
	Seed        int64                  `json:"seed"`
	Level       string                 `json:"level"`
	Coverage    map[string]interface{} `json:"coverage"`
	Assumptions []string               `json:"assumptions"`
	WallS       float64                `json:"wall_s"`
	Violations  int                    `json:"violations"`
}

type KnownFinding struct {
	Property string `json:"property"`
	ID       string `json:"id"`
	Status   string `json:"status"`
	Commit   string `json:"commit,omitempty"`
	What     string `json:"what"`
	Region   string `json:"region,omitempty"`
}

func loadKnown() []KnownFinding {
	var kf struct {
		Findings []KnownFinding `json:"findings"`
	}
	b, err := os.ReadFile(filepath.Join(verifDir, "known_findings.json"))
	if err != nil {
		return nil
	}
	json.Unmarshal(b, &kf)
	return kf.Findings
}

type CheckCtx struct {
	ID          string
	Tier        string
	WorkDir     string
	Results     []*HarnessResult
	Violations  []string // printed VIOLATION lines (already replay-confirmed)
	KnownLines  []string
	Incon       []string
	Samples     []interface{}
	Assumptions []string
	Extra       map[string]interface{}
	Replays     int
	Reproduced  int
	Validated   int // witness vectors replayed natively for model validation
	Level       string
	Programs    int
	Disagree    int
	t0          time.Time
}

func (c *CheckCtx) incon(s string) {
	for _, x := range c.Incon {
		if x == s {
			return
		}
	}
	c.Incon = append(c.Incon, s)
}

type CheckFn func(c *CheckCtx)

var checks = map[string]CheckFn{}

func solverSummary() map[string]interface{} {
	out := map[string]interface{}{}
	for k, s := range gStats {
		if s.Queries == 0 {
			continue
		}
		out[k] = map[string]interface{}{"queries": s.Queries, "sat": s.Sat, "unsat": s.Unsat, "unknown": s.Unknown, "errors": s.Errors,
			"solver_time_s": float64(s.NanosSum) / 1e9}
	}
	return out
}

func (c *CheckCtx) writeEvidence() {
	cov := map[string]interface{}{}
	var paths, steps, queries, cut int64
	funcs := map[string]int{}
	harn := []interface{}{}
	asserts := map[string]interface{}{}
	for _, r := range c.Results {
		paths += r.Paths
		steps += r.Steps
		queries += r.Queries
		cut += r.CutPaths
		for f, n := range r.Funcs {
			funcs[f] += n
		}
		labels := []string{}
		for l := range r.AssertsReached {
			labels = append(labels, l)
		}
		sort.Strings(labels)
		for _, l := range labels {
			asserts[r.Cfg.Name+"/"+l] = map[string]int64{"reached_on_paths": r.AssertsReached[l], "proved_on_paths": r.AssertsProved[l]}
		}
		covers := []string{}
		for l, ok := range r.CoverSeen {
			if ok {
				covers = append(covers, l)
			}
		}
		sort.Strings(covers)
		harn = append(harn, map[string]interface{}{"harness": r.Cfg.Pkg + "." + r.Cfg.Name, "solver": r.Cfg.Solver, "paths": r.Paths, "path_ends": r.Ends,
			"params": r.Cfg.Params, "unwind": r.Cfg.Unwind, "covers_witnessed": covers, "wall_s": r.Wall, "cut_paths_by_unwind_assumption": r.CutPaths,
			"go_panics_in_code_under_test": r.Panics, "notes": r.Notes, "cross_solver_disagreements": r.CrossDiff, "solver_process_restarts": r.SolverRestarts})
	}
	// encoded functions: repo functions only, with instruction counts
	enc := map[string]int{}
	for f, n := range funcs {
		if strings.Contains(f, "semantic_firewall") && !strings.Contains(f, ".Verif") && !strings.Contains(f, ".vx") {
			enc[strings.ReplaceAll(f, repoMod+"/", "")] = n
		}
	}
	if paths < 1 {
		paths = 1
	}
	if steps < 1 {
		steps = 1
	}
	cov["harnesses"] = harn
	cov["functions_encoded_ssa_instructions_executed"] = enc
	cov["assertions"] = asserts
	cov["solver"] = solverSummary()
	cov["queries_discharged"] = queries
	cov["inconclusive"] = c.Incon
	cov["known_findings_seen"] = c.KnownLines
	cov["replays_attempted"] = c.Replays
	cov["replays_reproduced"] = c.Reproduced
	for k, v := range c.Extra {
		cov[k] = v
	}
	if len(c.Samples) == 0 {
		c.Samples = append(c.Samples, "no sample recorded")
	}
	cov["samples"] = c.Samples
	level := c.Level
	if level == "" {
		level = "model_checking"
	}
	switch level {
	case "model_checking":
		cov["states"] = paths
		cov["transitions"] = steps
		cov["traces_validated_against_impl"] = c.Replays + c.Validated
		cov["model_validation_witnesses_replayed_natively"] = c.Validated
	case "translation_validation":
		cov["programs"] = c.Programs
		cov["disagreements_checked"] = c.Disagree
		cov["symbolic_paths"] = paths
		cov["ssa_instructions_executed"] = steps
	}
	ev := Evidence{PropertyID: c.ID, Tier: c.Tier, Seed: gSeed, Level: level, Coverage: cov, Assumptions: c.Assumptions,
		WallS: time.Since(c.t0).Seconds(), Violations: len(c.Violations)}
	if ev.Assumptions == nil {
		ev.Assumptions = []string{}
	}
	b, _ := json.MarshalIndent(ev, "", " ")
	os.MkdirAll(filepath.Join(verifDir, "evidence"), 0755)
	os.WriteFile(filepath.Join(verifDir, "evidence", c.ID+".json"), b, 0644)
}

func main() {
	if len(os.Args) < 2 {
		fmt.Fprintln(os.Stderr, "usage: verifx check <id> <quick|thorough> | selftest | list")
		os.Exit(2)
	}
	if s := os.Getenv("VERIF_SEED"); s != "" {
		gSeed, _ = strconv.ParseInt(s, 10, 64)
	}
	if w := os.Getenv("VERIF_WORKERS"); w != "" {
		gWorkers, _ = strconv.Atoi(w)
	}
	switch os.Args[1] {
	case "list":
		ids := []string{}
		for id := range checks {
			ids = append(ids, id)
		}
		sort.Strings(ids)
		fmt.Println(strings.Join(ids, " "))
	case "check":
		fs := flag.NewFlagSet("check", flag.ExitOnError)
		fs.Parse(os.Args[2:])
		id := fs.Arg(0)
		tier := fs.Arg(1)
		if tier == "" {
			tier = "quick"
		}
		gTier = tier
		fn, ok := checks[id]
		if !ok {
			fmt.Fprintf(os.Stderr, "unknown check %s\n", id)
			os.Exit(2)
		}
		wd, err := os.MkdirTemp(filepath.Join(verifDir, ".work"), id+"-")
		if err != nil {
			os.MkdirAll(filepath.Join(verifDir, ".work"), 0755)
			wd, err = os.MkdirTemp(filepath.Join(verifDir, ".work"), id+"-")
			if err != nil {
				fmt.Fprintln(os.Stderr, err)
				os.Exit(2)
			}
		}
		c := &CheckCtx{ID: id, Tier: tier, WorkDir: wd, Extra: map[string]interface{}{}, t0: time.Now()}
		fn(c)
		c.writeEvidence()
		os.RemoveAll(wd)
		for _, l := range c.KnownLines {
			fmt.Println(l)
		}
		for _, l := range c.Incon {
			fmt.Println("INCONCLUSIVE: " + l)
		}
		for _, l := range c.Violations {
			fmt.Println(l)
		}
		fmt.Printf("check %s %s: %d violations, %d known findings, %d inconclusive, %.1fs\n", id, tier, len(c.Violations), len(c.KnownLines), len(c.Incon), time.Since(c.t0).Seconds())
		if len(c.Violations) > 0 {
			os.Exit(1)
		}
	case "replay":
		// verifx replay <id> <path>: re-run one stored counterexample against the native build
		b, err := os.ReadFile(os.Args[3])
		if err != nil {
			fmt.Fprintln(os.Stderr, err)
			os.Exit(2)
		}
		var rf ReplayFile
		json.Unmarshal(b, &rf)
		os.MkdirAll(filepath.Join(verifDir, ".work"), 0755)
		wd, _ := os.MkdirTemp(filepath.Join(verifDir, ".work"), "replay-")
		defer os.RemoveAll(wd)
		if rf.Pkg == "" {
			fmt.Println(replayModeS(wd, &rf, os.Args[3]))
			return
		}
		lbl, st, out := nativeReplay(wd, rf.Pkg, &rf, os.Args[3])
		fmt.Println(out)
		if st == "violated" {
			fmt.Printf("VIOLATION property=%s replay=%s (label %s)\n", rf.Property, os.Args[3], lbl)
			os.RemoveAll(wd)
			os.Exit(1)
		}
		fmt.Printf("replay result: %s\n", st)
	case "selftest":
		os.Exit(selftest())
	default:
		fmt.Fprintln(os.Stderr, "unknown command")
		os.Exit(2)
	}
}
