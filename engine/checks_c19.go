package main

import (
	"fmt"
	"os"
	"strings"

	"golang.org/x/tools/go/ssa"
)

const topoPkg = repoMod + "/pkg/analysis/topology"

// contract stub for typeListSimilarity / MapSimilarity inside TopologySimilarity:
// the k-th call of each invocation returns the same arbitrary value in [0,1] (symmetry, proved
// by H1/H2), or exactly 1.0 in the equal-inputs harness.
func simContractStub(equal bool) Intrinsic {
	return func(in *Interp, p *Path, fr *Frame, a []Val, s ssa.CallInstruction) Val {
		if equal {
			return mkF64(1.0)
		}
		k, _ := p.stubs["simcall"].(*Term)
		idx := 0
		if k != nil {
			idx = int(k.U)
		}
		p.stubs["simcall"] = mkInt(int64(idx + 1))
		slot := idx % 5 // five component calls per TopologySimilarity invocation
		key := "simval" + string(rune('0'+slot))
		if v, ok := p.stubs[key].(*Term); ok {
			return v
		}
		v := p.fresh("sim", KFP, 64)
		p.assume(p.and(p.fpCmp("fp.geq", v, mkF64(0)), p.fpCmp("fp.leq", v, mkF64(1))))
		p.stubs[key] = v
		return v
	}
}

func init() {
	checks["C19"] = func(c *CheckCtx) {
		only := os.Getenv("VERIF_ONLY")
		to := 150000
		if c.Tier == "thorough" {
			to = 300000
		}
		cfgs := []*HarnessCfg{
			{Name: "VerifC19_TypeList", Pkg: topoPkg, Solver: "cvc5", TimeoutMs: to},
			{Name: "VerifC19_MapSim", Pkg: topoPkg, Solver: "cvc5", TimeoutMs: to},
			{Name: "VerifC19_MapSim", Pkg: topoPkg, Solver: "cvc5", TimeoutMs: to, OneShot: true, Portfolio: []string{"z3-new"}, FPUF: true, Params: map[string]int64{"sym": 1, "keys": 3}},
			{Name: "VerifC19_Similarity", Pkg: topoPkg, Solver: "cvc5", TimeoutMs: to, OneShot: true, Portfolio: []string{"z3-new"}, FPUF: true, Params: map[string]int64{"sym": 1}, Stubs: map[string]Intrinsic{
				topoPkg + ".typeListSimilarity": simContractStub(false), topoPkg + ".MapSimilarity": simContractStub(false)}},
			{Name: "VerifC19_Similarity", Pkg: topoPkg, Solver: "cvc5", TimeoutMs: to, OneShot: true, Stubs: map[string]Intrinsic{
				topoPkg + ".typeListSimilarity": simContractStub(false), topoPkg + ".MapSimilarity": simContractStub(false)}},
			{Name: "VerifC19_SelfSimilarity", Pkg: topoPkg, Solver: "cvc5", TimeoutMs: to, OneShot: true, Stubs: map[string]Intrinsic{
				topoPkg + ".typeListSimilarity": simContractStub(true), topoPkg + ".MapSimilarity": simContractStub(true)}},
		}
		c.Assumptions = append(c.Assumptions,
			"counters in [0, 2^20]; type lists of length <= 2 over single-byte names; frequency maps over a 2-key universe (3 keys for the symmetry harness) with counts in [1, 2^20]",
			"assume-guarantee: TopologySimilarity is checked with typeListSimilarity and MapSimilarity replaced by their contracts (value in [0,1], symmetric, 1.0 on equal inputs), which the first two harnesses discharge on the real code",
			"IEEE-754 binary64 semantics, round-to-nearest-even, encoded in the SMT FloatingPoint theory (cvc5)",
			"that a renamed copy of a function has a field-wise equal topology is a premise (ExtractTopology is not encoded)")
		if only != "" {
			var f []*HarnessCfg
			for _, cf := range cfgs {
				if strings.Contains(cf.Name+fmt.Sprint(cf.Params), only) {
					f = append(f, cf)
				}
			}
			cfgs = f
		}
		// the matcher clauses of C19 (one-to-one, never below the threshold, a renamed function is paired
		// rather than reported removed+added) are decided by the matcher harness shared with C09
		mf := int64(2) // 3 functions per side did not finish within 40 minutes (see C09)
		cfgs = append(cfgs, &HarnessCfg{Name: "VerifC09_Matcher", Pkg: diffPkg, Solver: "cvc5", TimeoutMs: 60000, MaxPaths: 2000000, MapOrderSym: true, EngineReplay: true,
			Params: map[string]int64{"maxfuncs": mf}, Stubs: matcherStubs()})
		c.runModeT([]string{"pkg/analysis/topology", "pkg/diff"}, cfgs)
	}
}
