package main

import (
	"golang.org/x/tools/go/ssa"
)

const sbPkg = repoMod + "/internal/sandbox"

func registerSandboxModels(in *Interp) {
	vxExtra["vxMkdir"] = noop
	vxExtra["vxSetToolchain"] = func(in *Interp, p *Path, fr *Frame, a []Val, s ssa.CallInstruction) Val {
		p.stubs["env:GOROOT"], p.stubs["env:GOCACHE"] = a[0], a[1]
		return nil
	}
	vxExtra["vxDestBytes"] = func(in *Interp, p *Path, fr *Frame, a []Val, s ssa.CallInstruction) Val {
		return byteClass(p, a[0].(StringVal), func(b *Term) *Term {
			return p.orN(p.bvCmp("=", b, mkBV(8, '/')), p.bvCmp("=", b, mkBV(8, '.')), p.bvCmp("=", b, mkBV(8, 'a')))
		})
	}
	in.intr["os.Getenv"] = func(in *Interp, p *Path, fr *Frame, a []Val, s ssa.CallInstruction) Val {
		k := argStr(p, a[0])
		if v, ok := p.stubs["env:"+k]; ok {
			return v
		}
		return concStr("")
	}
	in.intr["os.Getuid"] = func(in *Interp, p *Path, fr *Frame, a []Val, s ssa.CallInstruction) Val { return mkInt(1000) }
	in.intr["os.Getgid"] = in.intr["os.Getuid"]
	in.intr["os.MkdirAll"] = retNilErr
	in.intr["os.WriteFile"] = retNilErr
}

func init() {
	checks["C14"] = func(c *CheckCtx) {
		mounts, destlen := int64(2), int64(5)
		if c.Tier == "thorough" {
			mounts, destlen = 3, 7
		}
		cfgs := []*HarnessCfg{
			{Name: "VerifC14_Spec", Pkg: sbPkg, Solver: "z3", Params: map[string]int64{"mounts": mounts}, MaxPaths: 400000},
			{Name: "VerifC14_MountPointEscape", Pkg: sbPkg, Solver: "z3", Params: map[string]int64{"destlen": destlen}, MaxPaths: 400000},
		}
		c.Assumptions = append(c.Assumptions,
			"requested mounts: up to 2 (thorough 3), each either a scratch directory with a solver-chosen 1-2 byte name, a directory nested below such a name, a symlink to another directory, or one of the sandbox's own paths (/tmp, /proc, /sys, /dev, /app/sfw, /gocache, /proc/self, /dev/null; tmp and ./proc relative to the working directory /)",
			"file system answered from a symbolic table (system library paths exist and resolve to themselves); GOROOT/GOCACHE set to scratch directories; uid/gid constants",
			"mount-point escape: destinations of up to 5 (7) bytes over {'/', '.', 'a'} against the real filepath.Join/Rel/Clean executed from their SSA",
			"what runsc does with the specification is outside the claim")
		c.runModeT([]string{"internal/sandbox"}, cfgs)
	}
}
