package main

// Symbolic interpreter for go/ssa.

import (
	"fmt"
	"go/constant"
	"go/token"
	"go/types"
	"strings"
	"sync"

	"github.com/BlackVectorOps/semantic_firewall/v3/pkg/analysis/loop"
	"golang.org/x/tools/go/packages"
	"golang.org/x/tools/go/ssa"
)

type Intrinsic func(in *Interp, p *Path, fr *Frame, args []Val, site ssa.CallInstruction) Val

type Interp struct {
	prog       *ssa.Program
	pkgs       []*packages.Package
	ssaPkgs    map[string]*ssa.Package
	intr       map[string]Intrinsic
	repoPrefix []string
	globalInit map[*ssa.Global]Val
	gmu        sync.Mutex
	initDone   bool
	builtMu    sync.Mutex
	built      map[*ssa.Package]bool
}

type deferred struct {
	fn   Val
	args []Val
	call *ssa.CallCommon
}

type Frame struct {
	fn     *ssa.Function
	env    map[ssa.Value]Val
	free   []Val
	defers []deferred
	caller *Frame
	loops  *frameLoops
}

func (in *Interp) lookupFunc(pkg, name string) interface{} {
	sp := in.ssaPkgs[pkg]
	if sp == nil {
		return nil
	}
	f := sp.Func(name)
	if f == nil {
		return nil
	}
	return f
}

func (in *Interp) isRepoPkg(pkg *ssa.Package) bool {
	if pkg == nil || pkg.Pkg == nil {
		return false
	}
	for _, pre := range in.repoPrefix {
		if strings.HasPrefix(pkg.Pkg.Path(), pre) {
			return true
		}
	}
	return false
}

func (in *Interp) ensureBuilt(pkg *ssa.Package) {
	if pkg == nil {
		return
	}
	in.builtMu.Lock()
	ok := in.built[pkg]
	in.builtMu.Unlock()
	if ok {
		return
	}
	pkg.Build()
	in.builtMu.Lock()
	in.built[pkg] = true
	in.builtMu.Unlock()
}

// ---------------------------------------------------------------- globals

type pathGlobals struct {
	objs map[*ssa.Global]*Obj
	memo map[*Obj]*Obj
}

func (in *Interp) global(p *Path, g *ssa.Global) *Obj {
	pg, _ := p.stubs["$globals"].(*pathGlobals)
	if pg == nil {
		pg = &pathGlobals{objs: map[*ssa.Global]*Obj{}, memo: map[*Obj]*Obj{}}
		p.stubs["$globals"] = pg
	}
	if o, ok := pg.objs[g]; ok {
		return o
	}
	var v Val
	in.gmu.Lock()
	iv, ok := in.globalInit[g]
	in.gmu.Unlock()
	et := g.Type().(*types.Pointer).Elem()
	if ok {
		v = deepCopy(iv, pg.memo)
	} else if !in.isRepoPkg(g.Pkg) && types.IsInterface(et) {
		// sentinel values of foreign packages (io.EOF, pebble.ErrNotFound, ...): unique opaque identities
		v = IfaceVal{t: et, v: &OpaqueVal{name: g.String()}}
	} else if mv := modelGlobal(g); mv != nil {
		v = mv
	} else {
		v = zero(et)
	}
	o := &Obj{val: v, name: g.String()}
	pg.objs[g] = o
	return o
}

func deepCopy(v Val, memo map[*Obj]*Obj) Val {
	switch x := v.(type) {
	case *StructVal:
		n := &StructVal{f: make([]Val, len(x.f))}
		for i, f := range x.f {
			n.f[i] = deepCopy(f, memo)
		}
		return n
	case *ArrayVal:
		n := &ArrayVal{e: make([]Val, len(x.e))}
		for i, f := range x.e {
			n.e[i] = deepCopy(f, memo)
		}
		return n
	case *Pointer:
		if x == nil || x.obj == nil {
			return x
		}
		return &Pointer{obj: deepCopyObj(x.obj, memo), path: x.path, model: x.model}
	case SliceVal:
		if x.back == nil {
			return x
		}
		x.back = deepCopyObj(x.back, memo)
		return x
	case MapVal:
		if x.m == nil {
			return x
		}
		nm := &MapObj{symOrd: x.m.symOrd}
		for i := range x.m.keys {
			nm.keys = append(nm.keys, deepCopy(x.m.keys[i], memo))
			nm.vals = append(nm.vals, deepCopy(x.m.vals[i], memo))
		}
		return MapVal{m: nm}
	case IfaceVal:
		x.v = deepCopy(x.v, memo)
		return x
	case FuncVal:
		if len(x.free) > 0 {
			nf := make([]Val, len(x.free))
			for i, f := range x.free {
				nf[i] = deepCopy(f, memo)
			}
			x.free = nf
		}
		return x
	}
	return v
}

func deepCopyObj(o *Obj, memo map[*Obj]*Obj) *Obj {
	if n, ok := memo[o]; ok {
		return n
	}
	n := &Obj{name: o.name}
	memo[o] = n
	n.val = deepCopy(o.val, memo)
	return n
}

// runInits executes the package initialisers of repo (and subject) packages once, concretely,
// and records the resulting global values as the template every path starts from.
func (in *Interp) runInits() {
	if in.initDone {
		return
	}
	in.initDone = true
	res := &HarnessResult{Cfg: &HarnessCfg{Name: "$init", MaxSteps: 50000000, Unwind: 1 << 30}, Ends: map[string]int64{}, AssertsProved: map[string]int64{}, AssertsReached: map[string]int64{}, Covers: map[string]bool{}, CoverSeen: map[string]bool{}, Funcs: map[string]int{}}
	ex := &Explorer{in: in, cfg: res.Cfg, res: res}
	ex.qcond = sync.NewCond(&ex.qmu)
	p := &Path{ex: ex, known: map[string]*Term{}, funcs: map[string]int{}, unwind: map[unwindKey]int{}, stubs: map[string]Val{}}
	p.stubs["$initmode"] = termTrue
	for _, sp := range in.ssaPkgs {
		if !in.isRepoPkg(sp) {
			continue
		}
		in.ensureBuilt(sp)
		initFn := sp.Func("init")
		if initFn == nil {
			continue
		}
		func() {
			defer func() {
				if r := recover(); r != nil {
					if pe, ok := r.(pathEnd); ok {
						fmt.Printf("NOTE: package init of %s ended early: %s %s\n", sp.Pkg.Path(), pe.kind, firstLine(pe.msg))
						return
					}
					panic(r)
				}
			}()
			in.callFunction(p, nil, FuncVal{fn: initFn}, nil, nil)
		}()
	}
	if pg, _ := p.stubs["$globals"].(*pathGlobals); pg != nil {
		for g, o := range pg.objs {
			in.globalInit[g] = o.val
		}
	}
}

// ---------------------------------------------------------------- entry

func (in *Interp) runEntry(p *Path, fn interface{}) {
	if e, ok := fn.(func(in *Interp, p *Path)); ok {
		e(in, p)
		p.end("return", "")
	}
	f := fn.(*ssa.Function)
	in.callFunction(p, nil, FuncVal{fn: f}, nil, nil)
	p.end("return", "")
}

func (in *Interp) constVal(c *ssa.Const) Val {
	t := c.Type()
	if c.Value == nil {
		return zero(t)
	}
	switch u := t.Underlying().(type) {
	case *types.Basic:
		if w, signed, ok := intWidth(u); ok {
			if signed {
				v, _ := constant.Int64Val(constant.ToInt(c.Value))
				return mkBV(w, uint64(v))
			}
			v, _ := constant.Uint64Val(constant.ToInt(c.Value))
			return mkBV(w, v)
		}
		switch {
		case u.Info()&types.IsBoolean != 0:
			return mkBool(constant.BoolVal(c.Value))
		case u.Info()&types.IsFloat != 0:
			f, _ := constant.Float64Val(c.Value)
			return mkF64(f)
		case u.Info()&types.IsString != 0:
			return concStr(constant.StringVal(c.Value))
		}
	case *types.Interface:
		return IfaceVal{}
	}
	panic(pathEnd{"unsupported", "constant of type " + t.String()})
}

func (in *Interp) get(p *Path, fr *Frame, v ssa.Value) Val {
	switch x := v.(type) {
	case *ssa.Const:
		return in.constVal(x)
	case *ssa.Global:
		return &Pointer{obj: in.global(p, x)}
	case *ssa.Function:
		return FuncVal{fn: x}
	case *ssa.Builtin:
		return FuncVal{builtin: x.Name()}
	case *ssa.FreeVar:
		for i, fv := range fr.fn.FreeVars {
			if fv == x {
				return fr.free[i]
			}
		}
	}
	r, ok := fr.env[v]
	if !ok {
		panic(fmt.Sprintf("no value for %s (%T) in %s", v.Name(), v, fr.fn))
	}
	return r
}

func asTerm(v Val) *Term {
	t, ok := v.(*Term)
	if !ok {
		panic(pathEnd{"unsupported", fmt.Sprintf("expected scalar, got %T", v)})
	}
	return t
}

// ---------------------------------------------------------------- calls

func (in *Interp) callFunction(p *Path, caller *Frame, fv FuncVal, args []Val, site ssa.CallInstruction) Val {
	if fv.native != nil {
		return fv.native(in, p, caller, args, site)
	}
	if fv.builtin != "" {
		return in.callBuiltin(p, caller, fv.builtin, args, site)
	}
	fn := fv.fn
	if fn == nil {
		p.end("panic", "call of nil function")
	}
	name := fn.String()
	if strings.HasPrefix(fn.Name(), "vx") && in.isRepoPkg(fn.Pkg) {
		if r, ok := in.vxCall(p, caller, fn.Name(), args, site); ok {
			return r
		}
	}
	if p.ex.cfg.Stubs != nil {
		if st, ok := p.ex.cfg.Stubs[name]; ok {
			return st(in, p, caller, args, site)
		}
	}
	if it, ok := in.intr[name]; ok {
		return it(in, p, caller, args, site)
	}
	if o := fn.Origin(); o != nil {
		if it, ok := in.intr[o.String()]; ok {
			return it(in, p, caller, args, site)
		}
	}
	if fn.Name() == "init" && fn.Pkg != nil && !in.isRepoPkg(fn.Pkg) && p.stubs["$initmode"] != nil {
		return nil // initialisers of foreign packages are not executed; their globals are modelled
	}
	if fn.Blocks == nil {
		in.ensureBuilt(fn.Pkg)
	}
	if fn.Blocks == nil {
		if p.stubs["$initmode"] != nil {
			return in.opaqueResult(fn.Signature)
		}
		p.end("unsupported", "call to function without body: "+name)
	}
	if !in.isRepoPkg(fn.Pkg) && fn.Pkg != nil && !interpretablePkg(fn.Pkg.Pkg.Path()) {
		if p.stubs["$initmode"] != nil {
			return in.opaqueResult(fn.Signature)
		}
		p.end("unsupported", "no model for "+name)
	}
	p.depth++
	if p.depth > 400 {
		p.end("unsupported", "call depth > 400 in "+name)
	}
	if p.ex.cfg.MaxDepth > 0 && p.depth > p.ex.cfg.MaxDepth {
		p.end("unwind", fmt.Sprintf("call depth > %d in %s", p.ex.cfg.MaxDepth, name))
	}
	fr := &Frame{fn: fn, env: make(map[ssa.Value]Val, 32), free: fv.free, caller: caller}
	for i, prm := range fn.Params {
		if i < len(args) {
			fr.env[prm] = args[i]
		}
	}
	if p.ex.cfg.LoopCheck && in.isRepoPkg(fn.Pkg) && !strings.HasPrefix(fn.Name(), "Verif") {
		if fl := loopsOf(fn); fl != nil {
			fr.loops = &frameLoops{fl: fl, acts: map[*loop.Loop]*loopAct{}}
		}
	}
	r := in.exec(p, fr)
	p.depth--
	return r
}

// callBody interprets the SSA body of fn, bypassing any intrinsic registered for it.
func (in *Interp) callBody(p *Path, caller *Frame, fn *ssa.Function, args []Val, site ssa.CallInstruction) Val {
	if fn.Blocks == nil {
		in.ensureBuilt(fn.Pkg)
	}
	if fn.Blocks == nil {
		p.end("unsupported", "no body for "+fn.String())
	}
	p.depth++
	fr := &Frame{fn: fn, env: make(map[ssa.Value]Val, 32), caller: caller}
	for i, prm := range fn.Params {
		if i < len(args) {
			fr.env[prm] = args[i]
		}
	}
	r := in.exec(p, fr)
	p.depth--
	return r
}

func (in *Interp) opaqueResult(sig *types.Signature) Val {
	res := sig.Results()
	mk := func(t types.Type) Val {
		switch t.Underlying().(type) {
		case *types.Pointer:
			return &Pointer{model: &OpaqueVal{name: t.String()}}
		case *types.Interface:
			return IfaceVal{}
		}
		return zero(t)
	}
	switch res.Len() {
	case 0:
		return nil
	case 1:
		return mk(res.At(0).Type())
	}
	tv := make(TupleVal, res.Len())
	for i := range tv {
		tv[i] = mk(res.At(i).Type())
	}
	return tv
}

var interpretable = map[string]bool{
	"strings": true, "bytes": true, "sort": true, "slices": true, "strconv": true, "unicode": true, "unicode/utf8": true,
	"errors": true, "path/filepath": true, "path": true, "math": true, "math/bits": true, "internal/bytealg": true,
	"internal/stringslite": true, "cmp": true, "maps": true, "internal/itoa": true, "encoding/binary": true,
	"encoding/hex": true, "internal/byteorder": true, "internal/filepathlite": true, "iter": true, "unsafe": true,
	"sync/atomic": true, "internal/oserror": true, "io/fs": true, "io": true,
}

func interpretablePkg(path string) bool { return interpretable[path] }

func (in *Interp) exec(p *Path, fr *Frame) Val {
	fn := fr.fn
	fname := fn.String()
	block := fn.Blocks[0]
	var prev *ssa.BasicBlock
	var merged map[*ssa.Phi]Val
	for {
		var next *ssa.BasicBlock
		// phis first (parallel assignment)
		nphi := 0
		if merged != nil {
			for _, ins := range block.Instrs {
				phi, ok := ins.(*ssa.Phi)
				if !ok {
					break
				}
				fr.env[phi] = merged[phi]
				nphi++
			}
			merged = nil
		} else if prev != nil {
			var idx = -1
			for i, pr := range block.Preds {
				if pr == prev {
					idx = i
					break
				}
			}
			var vals []Val
			for _, ins := range block.Instrs {
				phi, ok := ins.(*ssa.Phi)
				if !ok {
					break
				}
				vals = append(vals, in.get(p, fr, phi.Edges[idx]))
				nphi++
			}
			for i := 0; i < nphi; i++ {
				fr.env[block.Instrs[i].(*ssa.Phi)] = vals[i]
			}
		}
		if fr.loops != nil {
			in.loopHook(p, fr, prev, block)
		}
		for _, ins := range block.Instrs[nphi:] {
			p.steps++
			if p.steps > p.ex.cfg.MaxSteps {
				p.end("steps", fmt.Sprintf("step budget %d exhausted in %s", p.ex.cfg.MaxSteps, fname))
			}
			p.funcs[fname]++
			p.site = fname
			switch x := ins.(type) {
			case *ssa.Jump:
				next = block.Succs[0]
			case *ssa.If:
				c := asTerm(in.get(p, fr, x.Cond))
				if !c.C {
					k := unwindKey{fr, x}
					p.unwind[k]++
					if p.unwind[k] > p.ex.cfg.Unwind {
						p.end("unwind", fmt.Sprintf("%s: more than %d symbolic decisions at one branch", fname, p.ex.cfg.Unwind))
					}
				}
				if !c.C && !p.ex.cfg.NoMerge {
					if j, phis, ret, ok := in.tryMerge(p, fr, block, c); ok {
						if j == nil {
							return ret
						}
						next, merged = j, phis
						break
					}
				}
				if p.branch(c) {
					next = block.Succs[0]
				} else {
					next = block.Succs[1]
				}
			case *ssa.Return:
				var r Val
				switch len(x.Results) {
				case 0:
				case 1:
					r = in.get(p, fr, x.Results[0])
				default:
					tv := make(TupleVal, len(x.Results))
					for i, rv := range x.Results {
						tv[i] = in.get(p, fr, rv)
					}
					r = tv
				}
				if fr.loops != nil {
					in.loopFrameEnd(p, fr)
				}
				return r
			case *ssa.Panic:
				v := in.get(p, fr, x.X)
				p.end("panic", "explicit panic in "+fname+": "+describe(v))
			default:
				in.step(p, fr, ins)
			}
		}
		if next == nil {
			panic("block without terminator in " + fname)
		}
		prev = block
		block = next
	}
}

func describe(v Val) string {
	switch x := v.(type) {
	case IfaceVal:
		return describe(x.v)
	case StringVal:
		if s, ok := x.conc(); ok {
			return s
		}
		return "<symbolic string>"
	case *Term:
		return x.S
	}
	return fmt.Sprintf("%T", v)
}

func (in *Interp) step(p *Path, fr *Frame, ins ssa.Instruction) {
	switch x := ins.(type) {
	case *ssa.Alloc:
		et := x.Type().(*types.Pointer).Elem()
		fr.env[x] = &Pointer{obj: &Obj{val: zero(et), name: x.Comment}}
	case *ssa.BinOp:
		fr.env[x] = in.binop(p, x.Op, in.get(p, fr, x.X), in.get(p, fr, x.Y), x.X.Type(), x.Y.Type())
	case *ssa.UnOp:
		fr.env[x] = in.unop(p, fr, x)
	case *ssa.Call:
		fr.env[x] = in.doCall(p, fr, &x.Call, x)
	case *ssa.ChangeInterface:
		fr.env[x] = in.get(p, fr, x.X)
	case *ssa.ChangeType:
		fr.env[x] = in.get(p, fr, x.X)
	case *ssa.Convert:
		fr.env[x] = in.convert(p, in.get(p, fr, x.X), x.X.Type(), x.Type())
	case *ssa.MultiConvert:
		fr.env[x] = in.convert(p, in.get(p, fr, x.X), x.X.Type(), x.Type())
	case *ssa.DebugRef:
	case *ssa.Defer:
		fv, args := in.prepareCall(p, fr, &x.Call)
		fr.defers = append(fr.defers, deferred{fn: fv, args: args, call: &x.Call})
	case *ssa.RunDefers:
		for i := len(fr.defers) - 1; i >= 0; i-- {
			d := fr.defers[i]
			in.invokeVal(p, fr, d.fn, d.args, d.call, nil)
		}
		fr.defers = nil
	case *ssa.Extract:
		fr.env[x] = in.get(p, fr, x.Tuple).(TupleVal)[x.Index]
	case *ssa.Field:
		fr.env[x] = copyVal(in.get(p, fr, x.X).(*StructVal).f[x.Field])
	case *ssa.FieldAddr:
		pt := in.get(p, fr, x.X).(*Pointer)
		if pt.isNil() || pt.obj == nil {
			p.end("panic", "nil pointer dereference (field address) in "+fr.fn.String())
		}
		fr.env[x] = pt.sub(x.Field)
	case *ssa.Index:
		fr.env[x] = in.index(p, in.get(p, fr, x.X), asTerm(in.get(p, fr, x.Index)), x.Index.Type())
	case *ssa.IndexAddr:
		fr.env[x] = in.indexAddr(p, in.get(p, fr, x.X), asTerm(in.get(p, fr, x.Index)), x.Index.Type())
	case *ssa.Lookup:
		fr.env[x] = in.lookup(p, x, in.get(p, fr, x.X), in.get(p, fr, x.Index))
	case *ssa.MakeClosure:
		fn := x.Fn.(*ssa.Function)
		free := make([]Val, len(x.Bindings))
		for i, b := range x.Bindings {
			free[i] = in.get(p, fr, b)
		}
		fr.env[x] = FuncVal{fn: fn, free: free}
	case *ssa.MakeInterface:
		fr.env[x] = IfaceVal{t: x.X.Type(), v: in.get(p, fr, x.X)}
	case *ssa.MakeMap:
		fr.env[x] = MapVal{m: &MapObj{symOrd: p.ex.cfg.MapOrderSym}}
	case *ssa.MakeSlice:
		ln := asTerm(in.get(p, fr, x.Len))
		cp := asTerm(in.get(p, fr, x.Cap))
		et := x.Type().Underlying().(*types.Slice).Elem()
		lnT := in.toInt64(p, ln, x.Len.Type())
		cpT := in.toInt64(p, cp, x.Cap.Type())
		var capN int
		if cpT.C {
			capN = int(int64(cpT.U))
		} else {
			capN = p.concretize(cpT, 0, in.symCapBound(p))
		}
		if capN < 0 || capN > 1<<20 {
			p.end("panic", "makeslice: cap out of range")
		}
		if lnT.C && int(int64(lnT.U)) > capN {
			p.end("panic", "makeslice: len out of range")
		}
		el := make([]Val, capN)
		for i := range el {
			el[i] = zero(et)
		}
		s := newSlice(el)
		s.n = lnT
		fr.env[x] = s
	case *ssa.MapUpdate:
		in.mapUpdate(p, in.get(p, fr, x.Map).(MapVal), in.get(p, fr, x.Key), in.get(p, fr, x.Value))
	case *ssa.Next:
		fr.env[x] = in.next(p, x, in.get(p, fr, x.Iter).(*RangeIter))
	case *ssa.Range:
		fr.env[x] = in.rangeIter(p, in.get(p, fr, x.X))
	case *ssa.Slice:
		fr.env[x] = in.slice(p, fr, x)
	case *ssa.Store:
		in.get(p, fr, x.Addr).(*Pointer).store(in.get(p, fr, x.Val))
	case *ssa.TypeAssert:
		fr.env[x] = in.typeAssert(p, x, in.get(p, fr, x.X))
	case *ssa.SliceToArrayPointer:
		s := in.get(p, fr, x.X).(SliceVal)
		fr.env[x] = &Pointer{obj: s.back, path: nil}
		if s.off != 0 {
			p.end("unsupported", "SliceToArrayPointer with offset")
		}
	case *ssa.Go:
		p.end("unsupported", "go statement in "+fr.fn.String())
	case *ssa.Select:
		fr.env[x] = in.selectStmt(p, fr, x)
	case *ssa.MakeChan:
		fr.env[x] = &Pointer{model: &OpaqueVal{name: "chan"}}
	case *ssa.Send:
		p.end("unsupported", "channel send in "+fr.fn.String())
	default:
		p.end("unsupported", fmt.Sprintf("instruction %T in %s", ins, fr.fn))
	}
}

func (in *Interp) symCapBound(p *Path) int {
	if v, ok := p.ex.cfg.Params["symcap"]; ok {
		return int(v)
	}
	return 64
}

func (in *Interp) selectStmt(p *Path, fr *Frame, x *ssa.Select) Val {
	// Only the non-blocking poll of a Done channel is modelled: never ready.
	if !x.Blocking {
		tv := TupleVal{mkInt(-1), termFalse}
		for _, st := range x.States {
			if st.Dir == types.RecvOnly {
				tv = append(tv, zero(st.Chan.Type().Underlying().(*types.Chan).Elem()))
			}
		}
		return tv
	}
	p.end("unsupported", "blocking select in "+fr.fn.String())
	return nil
}

func (in *Interp) prepareCall(p *Path, fr *Frame, c *ssa.CallCommon) (Val, []Val) {
	var args []Val
	if c.IsInvoke() {
		recv := in.get(p, fr, c.Value)
		args = append(args, recv)
		for _, a := range c.Args {
			args = append(args, in.get(p, fr, a))
		}
		return nil, args
	}
	fv := in.get(p, fr, c.Value)
	for _, a := range c.Args {
		args = append(args, in.get(p, fr, a))
	}
	return fv, args
}

func (in *Interp) doCall(p *Path, fr *Frame, c *ssa.CallCommon, site ssa.CallInstruction) Val {
	fv, args := in.prepareCall(p, fr, c)
	return in.invokeVal(p, fr, fv, args, c, site)
}

type ModelInvoker interface {
	Invoke(in *Interp, p *Path, method string, args []Val) Val
}

func (in *Interp) invokeVal(p *Path, fr *Frame, fv Val, args []Val, c *ssa.CallCommon, site ssa.CallInstruction) Val {
	if c.IsInvoke() {
		recv, ok := args[0].(IfaceVal)
		if !ok || recv.t == nil {
			p.end("panic", "method call on nil interface: "+c.Method.Name())
		}
		if pt, ok := recv.v.(*Pointer); ok && pt != nil && pt.model != nil {
			if mi, ok := pt.model.(ModelInvoker); ok {
				return mi.Invoke(in, p, c.Method.Name(), args[1:])
			}
		}
		if ov, ok := recv.v.(*OpaqueVal); ok {
			if c.Method.Name() == "Error" {
				return concStr(ov.name)
			}
			p.end("unsupported", "method "+c.Method.Name()+" on opaque "+ov.name)
		}
		m := in.prog.LookupMethod(recv.t, c.Method.Pkg(), c.Method.Name())
		if m == nil {
			p.end("unsupported", fmt.Sprintf("cannot resolve method %s on %s", c.Method.Name(), recv.t))
		}
		a2 := append([]Val{recv.v}, args[1:]...)
		return in.callFunction(p, fr, FuncVal{fn: m}, a2, site)
	}
	f, ok := fv.(FuncVal)
	if !ok {
		p.end("unsupported", fmt.Sprintf("call of %T", fv))
	}
	return in.callFunction(p, fr, f, args, site)
}

// ---------------------------------------------------------------- operators

func (in *Interp) toInt64(p *Path, t *Term, typ types.Type) *Term {
	if t.W == 64 {
		return t
	}
	_, signed, _ := intWidth(typ)
	if signed {
		return p.sextT(t, 64)
	}
	return p.zext(t, 64)
}

func (in *Interp) binop(p *Path, op token.Token, xv, yv Val, tx, ty types.Type) Val {
	switch x := xv.(type) {
	case *Term:
		y, ok := yv.(*Term)
		if !ok {
			break
		}
		switch x.K {
		case KBool:
			switch op {
			case token.EQL:
				return p.boolEq(x, y)
			case token.NEQ:
				return p.not(p.boolEq(x, y))
			case token.AND, token.LAND:
				return p.and(x, y)
			case token.OR, token.LOR:
				return p.or(x, y)
			}
		case KFP:
			switch op {
			case token.ADD:
				return p.fpBin("fp.add", x, y)
			case token.SUB:
				return p.fpBin("fp.sub", x, y)
			case token.MUL:
				return p.fpBin("fp.mul", x, y)
			case token.QUO:
				return p.fpBin("fp.div", x, y)
			case token.EQL:
				return p.fpCmp("fp.eq", x, y)
			case token.NEQ:
				return p.not(p.fpCmp("fp.eq", x, y))
			case token.LSS:
				return p.fpCmp("fp.lt", x, y)
			case token.LEQ:
				return p.fpCmp("fp.leq", x, y)
			case token.GTR:
				return p.fpCmp("fp.gt", x, y)
			case token.GEQ:
				return p.fpCmp("fp.geq", x, y)
			}
		case KBV:
			_, signed, _ := intWidth(tx)
			switch op {
			case token.ADD:
				return p.bvBin("bvadd", x, y)
			case token.SUB:
				return p.bvBin("bvsub", x, y)
			case token.MUL:
				return p.bvBin("bvmul", x, y)
			case token.AND:
				return p.bvBin("bvand", x, y)
			case token.OR:
				return p.bvBin("bvor", x, y)
			case token.XOR:
				return p.bvBin("bvxor", x, y)
			case token.AND_NOT:
				return p.bvBin("bvand", x, p.bvNot(y))
			case token.QUO, token.REM:
				if p.branch(p.bvCmp("=", y, mkBV(y.W, 0))) {
					p.end("panic", "integer divide by zero")
				}
				if signed {
					if op == token.QUO {
						return p.bvBin("bvsdiv", x, y)
					}
					return p.bvBin("bvsrem", x, y)
				}
				if op == token.QUO {
					return p.bvBin("bvudiv", x, y)
				}
				return p.bvBin("bvurem", x, y)
			case token.SHL, token.SHR:
				_, ysigned, _ := intWidth(ty)
				if ysigned {
					if p.branch(p.bvCmp("bvslt", y, mkBV(y.W, 0))) {
						p.end("panic", "negative shift amount")
					}
				}
				var sh *Term
				if y.W == x.W {
					sh = y
				} else if y.W < x.W {
					sh = p.zext(y, x.W)
				} else {
					big := p.bvCmp("bvuge", y, mkBV(y.W, uint64(x.W)))
					sh = p.ite(big, mkBV(x.W, uint64(x.W)), p.extract(y, x.W-1, 0))
				}
				if op == token.SHL {
					return p.bvBin("bvshl", x, sh)
				}
				if signed {
					return p.bvBin("bvashr", x, sh)
				}
				return p.bvBin("bvlshr", x, sh)
			case token.EQL:
				return p.bvCmp("=", x, y)
			case token.NEQ:
				return p.not(p.bvCmp("=", x, y))
			case token.LSS:
				return p.bvCmp(map[bool]string{true: "bvslt", false: "bvult"}[signed], x, y)
			case token.LEQ:
				return p.bvCmp(map[bool]string{true: "bvsle", false: "bvule"}[signed], x, y)
			case token.GTR:
				return p.bvCmp(map[bool]string{true: "bvsgt", false: "bvugt"}[signed], x, y)
			case token.GEQ:
				return p.bvCmp(map[bool]string{true: "bvsge", false: "bvuge"}[signed], x, y)
			}
		}
	case StringVal:
		y := yv.(StringVal)
		switch op {
		case token.ADD:
			return p.strConcat(x, y)
		case token.EQL:
			return p.strEq(x, y)
		case token.NEQ:
			return p.not(p.strEq(x, y))
		case token.LSS:
			return p.strLess(x, y)
		case token.GTR:
			return p.strLess(y, x)
		case token.LEQ:
			return p.not(p.strLess(y, x))
		case token.GEQ:
			return p.not(p.strLess(x, y))
		}
	}
	switch op {
	case token.EQL:
		return in.valEq(p, xv, yv)
	case token.NEQ:
		return p.not(in.valEq(p, xv, yv))
	}
	p.end("unsupported", fmt.Sprintf("binop %s on %T,%T", op, xv, yv))
	return nil
}

func (in *Interp) valEq(p *Path, a, b Val) *Term {
	switch x := a.(type) {
	case nil:
		return in.isNilVal(p, b)
	case *Term:
		if y, ok := b.(*Term); ok {
			return p.eq(x, y)
		}
	case StringVal:
		if y, ok := b.(StringVal); ok {
			return p.strEq(x, y)
		}
	case *Pointer:
		switch y := b.(type) {
		case *Pointer:
			return mkBool(samePointer(x, y))
		case nil:
			return mkBool(x.isNil())
		}
	case SliceVal:
		return mkBool(x.back == nil) // only comparable to nil
	case MapVal:
		return mkBool(x.m == nil)
	case FuncVal:
		return mkBool(x.fn == nil && x.builtin == "" && x.native == nil)
	case IfaceVal:
		switch y := b.(type) {
		case IfaceVal:
			if x.t == nil || y.t == nil {
				return mkBool(x.t == nil && y.t == nil)
			}
			if !types.Identical(x.t, y.t) {
				return termFalse
			}
			return in.valEq(p, x.v, y.v)
		case nil:
			return mkBool(x.t == nil)
		}
	case *StructVal:
		y := b.(*StructVal)
		r := termTrue
		for i := range x.f {
			r = p.and(r, in.valEq(p, x.f[i], y.f[i]))
		}
		return r
	case *ArrayVal:
		y := b.(*ArrayVal)
		r := termTrue
		for i := range x.e {
			r = p.and(r, in.valEq(p, x.e[i], y.e[i]))
		}
		return r
	case *OpaqueVal:
		y, ok := b.(*OpaqueVal)
		return mkBool(ok && (x == y || (x.name == y.name && x.id == y.id)))
	}
	p.end("unsupported", fmt.Sprintf("equality on %T,%T", a, b))
	return nil
}

func (in *Interp) isNilVal(p *Path, b Val) *Term {
	switch y := b.(type) {
	case nil:
		return termTrue
	case *Pointer:
		return mkBool(y.isNil())
	case SliceVal:
		return mkBool(y.back == nil)
	case MapVal:
		return mkBool(y.m == nil)
	case IfaceVal:
		return mkBool(y.t == nil)
	case FuncVal:
		return mkBool(y.fn == nil && y.builtin == "" && y.native == nil)
	}
	return termFalse
}

func (in *Interp) unop(p *Path, fr *Frame, x *ssa.UnOp) Val {
	v := in.get(p, fr, x.X)
	switch x.Op {
	case token.MUL:
		pt, ok := v.(*Pointer)
		if !ok {
			p.end("unsupported", fmt.Sprintf("load through %T", v))
		}
		if pt.isNil() || pt.obj == nil {
			p.end("panic", "nil pointer dereference in "+fr.fn.String())
		}
		return pt.load()
	case token.NOT:
		return p.not(asTerm(v))
	case token.SUB:
		t := asTerm(v)
		if t.K == KFP {
			return p.fpNeg(t)
		}
		return p.bvNeg(t)
	case token.XOR:
		return p.bvNot(asTerm(v))
	case token.ARROW:
		p.end("unsupported", "channel receive in "+fr.fn.String())
	}
	p.end("unsupported", "unop "+x.Op.String())
	return nil
}

func (in *Interp) convert(p *Path, v Val, from, to types.Type) Val {
	fu, tu := from.Underlying(), to.Underlying()
	if tw, tsigned, ok := intWidth(tu); ok {
		if fw, fsigned, ok2 := intWidth(fu); ok2 {
			t := asTerm(v)
			_ = fw
			if tw <= t.W {
				return p.extract(t, tw-1, 0)
			}
			if fsigned {
				return p.sextT(t, tw)
			}
			return p.zext(t, tw)
		}
		if isFloat(fu) {
			return p.fpToInt(asTerm(v), tw, tsigned)
		}
	}
	if isFloat(tu) {
		if _, fsigned, ok := intWidth(fu); ok {
			return p.intToFP(asTerm(v), fsigned)
		}
		if isFloat(fu) {
			if tb := tu.(*types.Basic); tb.Kind() == types.Float32 {
				if fb := fu.(*types.Basic); fb.Kind() != types.Float32 && fb.Kind() != types.UntypedFloat {
					p.end("unsupported", "float64->float32 conversion")
				}
			}
			return v
		}
	}
	if isString(tu) {
		switch s := v.(type) {
		case StringVal:
			return s
		case SliceVal:
			if et, ok := fu.(*types.Slice); ok {
				if w, _, _ := intWidth(et.Elem()); w == 8 {
					return in.bytesToString(p, s)
				}
			}
		case *Term:
			if s.C && s.U < 0x80 {
				return concStr(string(rune(s.U)))
			}
		}
	}
	if ts, ok := tu.(*types.Slice); ok {
		if s, ok := v.(StringVal); ok {
			if w, _, _ := intWidth(ts.Elem()); w == 8 {
				el := make([]Val, len(s.b))
				for i, b := range s.b {
					el[i] = b
				}
				r := newSlice(el)
				r.n = s.n
				return r
			}
		}
		if _, ok := v.(SliceVal); ok {
			return v
		}
	}
	switch tu.(type) {
	case *types.Pointer, *types.Signature, *types.Map, *types.Chan, *types.Struct, *types.Array, *types.Interface:
		return v
	}
	if b, ok := tu.(*types.Basic); ok && b.Kind() == types.UnsafePointer {
		return v
	}
	if isBoolT(tu) {
		return v
	}
	p.end("unsupported", fmt.Sprintf("conversion %s -> %s", from, to))
	return nil
}

func (in *Interp) bytesToString(p *Path, s SliceVal) StringVal {
	el := s.elems()
	b := make([]*Term, len(el))
	for i, e := range el {
		b[i] = asTerm(e)
	}
	return StringVal{b: b, n: s.n}
}

// ---------------------------------------------------------------- indexing

func (in *Interp) boundsCheck(p *Path, idx, n *Term, what string) {
	if p.branch(p.not(p.bvCmp("bvult", idx, n))) {
		p.end("panic", "index out of range ("+what+")")
	}
}

func (in *Interp) index(p *Path, xv Val, idx *Term, it types.Type) Val {
	i64 := in.toInt64(p, idx, it)
	switch x := xv.(type) {
	case StringVal:
		in.boundsCheck(p, i64, x.n, "string")
		return p.strAt(x, i64)
	case *ArrayVal:
		in.boundsCheck(p, i64, mkInt(int64(len(x.e))), "array")
		i := p.concretize(i64, 0, len(x.e)-1)
		return copyVal(x.e[i])
	}
	p.end("unsupported", fmt.Sprintf("index on %T", xv))
	return nil
}

func (in *Interp) indexAddr(p *Path, xv Val, idx *Term, it types.Type) Val {
	i64 := in.toInt64(p, idx, it)
	switch x := xv.(type) {
	case SliceVal:
		in.boundsCheck(p, i64, x.n, "slice")
		i := p.concretize(i64, 0, x.cap-1)
		return &Pointer{obj: x.back, path: []int{x.off + i}}
	case *Pointer:
		arr, ok := x.load().(*ArrayVal)
		if !ok {
			p.end("unsupported", "IndexAddr through pointer to non-array")
		}
		in.boundsCheck(p, i64, mkInt(int64(len(arr.e))), "array")
		i := p.concretize(i64, 0, len(arr.e)-1)
		return x.sub(i)
	}
	p.end("unsupported", fmt.Sprintf("indexaddr on %T", xv))
	return nil
}

func (in *Interp) slice(p *Path, fr *Frame, x *ssa.Slice) Val {
	xv := in.get(p, fr, x.X)
	var lo, hi, mx *Term
	if x.Low != nil {
		lo = in.toInt64(p, asTerm(in.get(p, fr, x.Low)), x.Low.Type())
	}
	if x.High != nil {
		hi = in.toInt64(p, asTerm(in.get(p, fr, x.High)), x.High.Type())
	}
	if x.Max != nil {
		mx = in.toInt64(p, asTerm(in.get(p, fr, x.Max)), x.Max.Type())
	}
	switch s := xv.(type) {
	case StringVal:
		return p.strSlice(s, lo, hi)
	case SliceVal:
		return in.sliceOf(p, s, lo, hi, mx)
	case *Pointer:
		arr, ok := s.load().(*ArrayVal)
		if !ok {
			p.end("unsupported", "slice of pointer to non-array")
		}
		// slicing an addressable array: the backing store must alias the array object itself.
		if len(s.path) != 0 {
			p.end("unsupported", "slice of nested array")
		}
		_ = arr
		real := s.obj.val.(*ArrayVal)
		base := SliceVal{back: s.obj, off: 0, n: mkInt(int64(len(real.e))), cap: len(real.e)}
		return in.sliceOf(p, base, lo, hi, mx)
	}
	p.end("unsupported", fmt.Sprintf("slice of %T", xv))
	return nil
}

func (in *Interp) sliceOf(p *Path, s SliceVal, lo, hi, mx *Term) Val {
	if lo == nil {
		lo = mkInt(0)
	}
	if hi == nil {
		hi = s.n
	}
	capT := mkInt(int64(s.cap))
	// bounds: 0 <= lo <= hi <= cap
	bad := p.or(p.bvCmp("bvugt", lo, hi), p.bvCmp("bvugt", hi, capT))
	if mx != nil {
		bad = p.or(bad, p.or(p.bvCmp("bvugt", hi, mx), p.bvCmp("bvugt", mx, capT)))
	}
	if p.branch(bad) {
		p.end("panic", "slice bounds out of range")
	}
	l := p.concretize(lo, 0, s.cap)
	ncap := s.cap - l
	if mx != nil {
		m := p.concretize(mx, 0, s.cap)
		ncap = m - l
	}
	if s.back == nil {
		return SliceVal{n: mkInt(0)}
	}
	return SliceVal{back: s.back, off: s.off + l, n: p.bvBin("bvsub", hi, mkInt(int64(l))), cap: ncap}
}

// ---------------------------------------------------------------- maps

func (in *Interp) mapFind(p *Path, m *MapObj, key Val) int {
	if m == nil {
		return -1
	}
	for i, k := range m.keys {
		if p.branch(in.valEq(p, k, key)) {
			return i
		}
	}
	return -1
}

func (in *Interp) lookup(p *Path, x *ssa.Lookup, xv Val, key Val) Val {
	if s, ok := xv.(StringVal); ok {
		idx := in.toInt64(p, asTerm(key), x.Index.Type())
		in.boundsCheck(p, idx, s.n, "string")
		return p.strAt(s, idx)
	}
	m := xv.(MapVal)
	vt := x.X.Type().Underlying().(*types.Map).Elem()
	i := in.mapFind(p, m.m, key)
	var v Val
	if i >= 0 {
		v = copyVal(m.m.vals[i])
	} else {
		v = zero(vt)
	}
	if x.CommaOk {
		return TupleVal{v, mkBool(i >= 0)}
	}
	return v
}

func (in *Interp) mapUpdate(p *Path, m MapVal, key, val Val) {
	if m.m == nil {
		p.end("panic", "assignment to entry in nil map")
	}
	i := in.mapFind(p, m.m, key)
	if i >= 0 {
		m.m.vals[i] = copyVal(val)
		return
	}
	m.m.keys = append(m.m.keys, key)
	m.m.vals = append(m.m.vals, copyVal(val))
}

func (in *Interp) mapDelete(p *Path, m MapVal, key Val) {
	if m.m == nil {
		return
	}
	i := in.mapFind(p, m.m, key)
	if i >= 0 {
		m.m.keys = append(append([]Val(nil), m.m.keys[:i]...), m.m.keys[i+1:]...)
		m.m.vals = append(append([]Val(nil), m.m.vals[:i]...), m.m.vals[i+1:]...)
	}
}

func (in *Interp) rangeIter(p *Path, xv Val) Val {
	switch x := xv.(type) {
	case StringVal:
		return &RangeIter{isStr: true, str: x}
	case MapVal:
		it := &RangeIter{m: x.m}
		if x.m != nil {
			it.keys = append([]Val(nil), x.m.keys...)
			for i := range it.keys {
				it.left = append(it.left, i)
			}
		}
		return it
	}
	p.end("unsupported", fmt.Sprintf("range over %T", xv))
	return nil
}

func (in *Interp) next(p *Path, x *ssa.Next, it *RangeIter) Val {
	if it.isStr {
		pos := mkInt(int64(it.pos))
		if !p.branch(p.bvCmp("bvult", pos, it.str.n)) {
			return TupleVal{termFalse, mkInt(0), mkBV(32, 0)}
		}
		b := p.strAt(it.str, pos)
		p.assumeASCII(b)
		it.pos++
		return TupleVal{termTrue, pos, p.zext(b, 32)}
	}
	mt := x.Iter.(*ssa.Range).X.Type().Underlying().(*types.Map)
	for len(it.left) > 0 {
		var pick int
		if it.m.symOrd {
			pick = p.chooseFree(len(it.left))
		}
		ki := it.left[pick]
		it.left = append(append([]int(nil), it.left[:pick]...), it.left[pick+1:]...)
		key := it.keys[ki]
		// still present? (identity of the key value inserted)
		cur := -1
		for j, k := range it.m.keys {
			if sameKeyIdentity(k, key) {
				cur = j
				break
			}
		}
		if cur < 0 {
			continue
		}
		return TupleVal{termTrue, key, copyVal(it.m.vals[cur])}
	}
	return TupleVal{termFalse, zero(mt.Key()), zero(mt.Elem())}
}

func sameKeyIdentity(a, b Val) bool {
	switch x := a.(type) {
	case *Term:
		y, ok := b.(*Term)
		return ok && (x == y || x.S == y.S)
	case StringVal:
		y, ok := b.(StringVal)
		if !ok || len(x.b) != len(y.b) || x.n.S != y.n.S {
			return false
		}
		for i := range x.b {
			if x.b[i].S != y.b[i].S {
				return false
			}
		}
		return true
	case *Pointer:
		y, ok := b.(*Pointer)
		return ok && samePointer(x, y)
	case IfaceVal:
		y, ok := b.(IfaceVal)
		return ok && sameKeyIdentity(x.v, y.v)
	case *StructVal:
		y, ok := b.(*StructVal)
		if !ok {
			return false
		}
		for i := range x.f {
			if !sameKeyIdentity(x.f[i], y.f[i]) {
				return false
			}
		}
		return true
	}
	return false
}

// ---------------------------------------------------------------- type assertions

func (in *Interp) implements(dyn types.Type, iface *types.Interface) bool {
	if types.Implements(dyn, iface) {
		return true
	}
	return false
}

func (in *Interp) typeAssert(p *Path, x *ssa.TypeAssert, v Val) Val {
	iv, ok := v.(IfaceVal)
	if !ok {
		p.end("unsupported", fmt.Sprintf("type assert on %T", v))
	}
	okk := false
	var res Val
	if iv.t != nil {
		if it, isI := x.AssertedType.Underlying().(*types.Interface); isI {
			okk = in.implements(iv.t, it)
			res = iv
		} else {
			okk = types.Identical(iv.t, x.AssertedType)
			res = iv.v
		}
	}
	if !okk {
		if x.CommaOk {
			return TupleVal{zero(x.AssertedType), termFalse}
		}
		p.end("panic", "interface conversion failed: "+x.AssertedType.String())
	}
	if x.CommaOk {
		return TupleVal{res, termTrue}
	}
	return res
}

// ---------------------------------------------------------------- builtins

func (in *Interp) callBuiltin(p *Path, fr *Frame, name string, args []Val, site ssa.CallInstruction) Val {
	switch name {
	case "len":
		switch x := args[0].(type) {
		case StringVal:
			return x.n
		case SliceVal:
			return x.n
		case MapVal:
			if x.m == nil {
				return mkInt(0)
			}
			return mkInt(int64(len(x.m.keys)))
		case *ArrayVal:
			return mkInt(int64(len(x.e)))
		case *Pointer:
			if a, ok := x.load().(*ArrayVal); ok {
				return mkInt(int64(len(a.e)))
			}
		}
	case "cap":
		switch x := args[0].(type) {
		case SliceVal:
			return mkInt(int64(x.cap))
		case *ArrayVal:
			return mkInt(int64(len(x.e)))
		}
	case "append":
		return in.appendSlice(p, args[0].(SliceVal), args[1], site)
	case "copy":
		return in.copySlice(p, args[0].(SliceVal), args[1])
	case "delete":
		in.mapDelete(p, args[0].(MapVal), args[1])
		return nil
	case "panic":
		p.end("panic", "panic: "+describe(args[0]))
	case "print", "println":
		return nil
	case "min", "max":
		r := args[0]
		for _, a := range args[1:] {
			x, y := asTerm(r), asTerm(a)
			var c *Term
			if x.K == KFP {
				c = p.fpCmp("fp.lt", x, y)
			} else {
				_, signed, _ := intWidth(site.Common().Args[0].Type())
				c = p.bvCmp(map[bool]string{true: "bvslt", false: "bvult"}[signed], x, y)
			}
			if name == "min" {
				r = p.ite(c, x, y)
			} else {
				r = p.ite(c, y, x)
			}
		}
		return r
	case "clear":
		if m, ok := args[0].(MapVal); ok && m.m != nil {
			m.m.keys, m.m.vals = nil, nil
		}
		return nil
	case "recover":
		return IfaceVal{}
	case "ssa:wrapnilchk":
		return args[0]
	}
	p.end("unsupported", "builtin "+name)
	return nil
}

func (in *Interp) appendSlice(p *Path, s SliceVal, more Val, site ssa.CallInstruction) Val {
	var add []Val
	var addN *Term
	switch m := more.(type) {
	case SliceVal:
		if m.back == nil {
			return s
		}
		if !m.n.C {
			// symbolic number of appended elements: result has symbolic length when dst length is concrete
			el := m.elems()
			add = append(add, el...)
			addN = m.n
		} else {
			add = append(add, m.elems()[:m.concLen()]...)
		}
	case StringVal:
		for _, b := range m.b {
			add = append(add, b)
		}
		if !m.n.C {
			addN = m.n
		} else {
			add = add[:int(m.n.U)]
		}
	default:
		p.end("unsupported", fmt.Sprintf("append of %T", more))
	}
	var n int
	if s.n.C {
		n = int(s.n.U)
	} else {
		n = p.concretize(s.n, 0, s.cap)
	}
	cp := make([]Val, len(add))
	for i, a := range add {
		cp[i] = copyVal(a)
	}
	total := n + len(cp)
	var newN *Term
	if addN != nil {
		newN = p.bvBin("bvadd", mkInt(int64(n)), addN)
	} else {
		newN = mkInt(int64(total))
	}
	if s.back != nil && total <= s.cap {
		arr := s.back.val.(*ArrayVal)
		if addN == nil {
			copy(arr.e[s.off+n:], cp)
		} else {
			// in-place append of a symbolic count: positions beyond the new length keep garbage, harmless
			for i, a := range cp {
				old := arr.e[s.off+n+i]
				if ot, ok := old.(*Term); ok {
					if at, ok2 := a.(*Term); ok2 {
						arr.e[s.off+n+i] = p.ite(p.bvCmp("bvult", mkInt(int64(i)), addN), at, ot)
						continue
					}
				}
				arr.e[s.off+n+i] = a
			}
		}
		return SliceVal{back: s.back, off: s.off, n: newN, cap: s.cap}
	}
	ncap := total
	if ncap < 2*s.cap && addN == nil {
		ncap = 2 * s.cap
	}
	el := make([]Val, ncap)
	var old []Val
	if s.back != nil {
		old = s.elems()[:n]
	}
	for i := range el {
		switch {
		case i < n:
			el[i] = copyVal(old[i])
		case i < total:
			el[i] = cp[i-n]
		default:
			el[i] = in.zeroLike(p, s, cp)
		}
	}
	r := newSlice(el)
	r.n = newN
	return r
}

func (in *Interp) zeroLike(p *Path, s SliceVal, cp []Val) Val {
	var sample Val
	if len(cp) > 0 {
		sample = cp[0]
	} else if s.back != nil && len(s.elems()) > 0 {
		sample = s.elems()[0]
	}
	switch x := sample.(type) {
	case *Term:
		switch x.K {
		case KBool:
			return termFalse
		case KFP:
			return mkF64(0)
		default:
			return mkBV(x.W, 0)
		}
	case StringVal:
		return concStr("")
	case *Pointer:
		return &Pointer{}
	case IfaceVal:
		return IfaceVal{}
	case SliceVal:
		return SliceVal{n: mkInt(0)}
	case MapVal:
		return MapVal{}
	case FuncVal:
		return FuncVal{}
	case *StructVal:
		return zeroOfShape(x)
	case *ArrayVal:
		return zeroOfShape(x)
	}
	return nil
}

func zeroOfShape(v Val) Val {
	switch x := v.(type) {
	case *Term:
		switch x.K {
		case KBool:
			return termFalse
		case KFP:
			return mkF64(0)
		default:
			return mkBV(x.W, 0)
		}
	case StringVal:
		return concStr("")
	case *Pointer:
		return &Pointer{}
	case IfaceVal:
		return IfaceVal{}
	case SliceVal:
		return SliceVal{n: mkInt(0)}
	case MapVal:
		return MapVal{}
	case FuncVal:
		return FuncVal{}
	case *StructVal:
		n := &StructVal{f: make([]Val, len(x.f))}
		for i := range x.f {
			n.f[i] = zeroOfShape(x.f[i])
		}
		return n
	case *ArrayVal:
		n := &ArrayVal{e: make([]Val, len(x.e))}
		for i := range x.e {
			n.e[i] = zeroOfShape(x.e[i])
		}
		return n
	}
	return v
}

func (in *Interp) copySlice(p *Path, dst SliceVal, src Val) Val {
	var srcEl []Val
	var srcN *Term
	switch s := src.(type) {
	case SliceVal:
		if s.back != nil {
			srcEl = s.elems()
		}
		srcN = s.n
	case StringVal:
		for _, b := range s.b {
			srcEl = append(srcEl, b)
		}
		srcN = s.n
	}
	if dst.back == nil {
		return mkInt(0)
	}
	dEl := dst.elems()
	// n = min(len(dst), len(src))
	lt := p.bvCmp("bvult", dst.n, srcN)
	n := p.ite(lt, dst.n, srcN)
	if n.C {
		k := int(n.U)
		tmp := make([]Val, k)
		for i := 0; i < k; i++ {
			tmp[i] = copyVal(srcEl[i])
		}
		copy(dEl, tmp)
		return n
	}
	for i := 0; i < len(dEl) && i < len(srcEl); i++ {
		ot, ok1 := dEl[i].(*Term)
		nt, ok2 := srcEl[i].(*Term)
		if !ok1 || !ok2 {
			p.end("unsupported", "copy with symbolic length of non-scalar elements")
		}
		dEl[i] = p.ite(p.bvCmp("bvult", mkInt(int64(i)), n), nt, ot)
	}
	return n
}

// ---------------------------------------------------------------- diamond merging

func scalarType(t types.Type) bool {
	b, ok := t.Underlying().(*types.Basic)
	if !ok {
		return false
	}
	return b.Info()&(types.IsBoolean|types.IsInteger|types.IsFloat) != 0
}

func (in *Interp) pureInstr(ins ssa.Instruction) bool {
	switch x := ins.(type) {
	case *ssa.BinOp:
		if _, _, isInt := intWidth(x.X.Type()); isInt {
			switch x.Op {
			case token.QUO, token.REM:
				return false
			case token.SHL, token.SHR:
				if _, ys, _ := intWidth(x.Y.Type()); ys {
					if _, isC := x.Y.(*ssa.Const); !isC {
						return false
					}
				}
			}
			return true
		}
		return scalarType(x.X.Type()) || isString(x.X.Type())
	case *ssa.UnOp:
		return x.Op == token.NOT || x.Op == token.SUB || x.Op == token.XOR
	case *ssa.Convert:
		return scalarType(x.X.Type()) && scalarType(x.Type())
	case *ssa.ChangeType:
		return scalarType(x.Type())
	case *ssa.DebugRef:
		return true
	case *ssa.Call:
		if x.Call.IsInvoke() {
			return false
		}
		fn := x.Call.StaticCallee()
		if fn == nil {
			return false
		}
		return in.pureFn(fn)
	}
	return false
}

var pureFnMemo = map[*ssa.Function]int{} // 1 pure, 2 not
var pureFnMu sync.Mutex

func (in *Interp) pureFn(fn *ssa.Function) bool {
	pureFnMu.Lock()
	m := pureFnMemo[fn]
	pureFnMu.Unlock()
	if m != 0 {
		return m == 1
	}
	res := in.pureFnCompute(fn)
	pureFnMu.Lock()
	if res {
		pureFnMemo[fn] = 1
	} else {
		pureFnMemo[fn] = 2
	}
	pureFnMu.Unlock()
	return res
}

func (in *Interp) pureFnCompute(fn *ssa.Function) bool {
	if _, isIntr := in.intr[fn.String()]; isIntr {
		switch fn.String() {
		case "math.Abs", "math.IsNaN", "math.Float64bits", "math.Float64frombits":
			return true
		}
		return false
	}
	if strings.HasPrefix(fn.Name(), "vx") {
		return false
	}
	if fn.Blocks == nil || len(fn.Blocks) > 12 || len(fn.FreeVars) > 0 {
		return false
	}
	pureFnMu.Lock()
	pureFnMemo[fn] = 2 // recursion guard
	pureFnMu.Unlock()
	for _, prm := range fn.Params {
		if !scalarType(prm.Type()) {
			return false
		}
	}
	for _, b := range fn.Blocks {
		for i, ins := range b.Instrs {
			if i == len(b.Instrs)-1 {
				switch t := ins.(type) {
				case *ssa.Return:
					for _, r := range t.Results {
						if !scalarType(r.Type()) {
							return false
						}
					}
				case *ssa.If:
				case *ssa.Jump:
					// no back edges
					if b.Succs[0].Index <= b.Index {
						return false
					}
				default:
					return false
				}
				continue
			}
			if _, isPhi := ins.(*ssa.Phi); isPhi {
				if !scalarType(ins.(*ssa.Phi).Type()) {
					return false
				}
				continue
			}
			if !in.pureInstr(ins) {
				return false
			}
		}
	}
	pureFnMu.Lock()
	delete(pureFnMemo, fn)
	pureFnMu.Unlock()
	return true
}

func (in *Interp) pureArm(b *ssa.BasicBlock) bool {
	if len(b.Preds) != 1 {
		return false
	}
	for _, ins := range b.Instrs[:len(b.Instrs)-1] {
		if !in.pureInstr(ins) {
			return false
		}
	}
	return true
}

func (in *Interp) evalArm(p *Path, fr *Frame, b *ssa.BasicBlock) {
	for _, ins := range b.Instrs[:len(b.Instrs)-1] {
		p.steps++
		in.step(p, fr, ins)
	}
}

func phiEdge(j, from *ssa.BasicBlock) int {
	for i, pr := range j.Preds {
		if pr == from {
			return i
		}
	}
	return -1
}

func phisScalar(j *ssa.BasicBlock) bool {
	for _, ins := range j.Instrs {
		phi, ok := ins.(*ssa.Phi)
		if !ok {
			break
		}
		if !scalarType(phi.Type()) {
			return false
		}
	}
	return true
}

// tryMerge turns a side-effect-free diamond / triangle / two-way return into ite terms.
func (in *Interp) tryMerge(p *Path, fr *Frame, block *ssa.BasicBlock, c *Term) (*ssa.BasicBlock, map[*ssa.Phi]Val, Val, bool) {
	t, f := block.Succs[0], block.Succs[1]
	if t == f {
		return nil, nil, nil, false
	}
	jumpTo := func(b *ssa.BasicBlock) *ssa.BasicBlock {
		if _, ok := b.Instrs[len(b.Instrs)-1].(*ssa.Jump); ok {
			return b.Succs[0]
		}
		return nil
	}
	var j, fromT, fromF *ssa.BasicBlock
	tPure, fPure := in.pureArm(t), in.pureArm(f)
	switch {
	case tPure && fPure && jumpTo(t) != nil && jumpTo(t) == jumpTo(f):
		j, fromT, fromF = jumpTo(t), t, f
	case tPure && jumpTo(t) == f:
		j, fromT, fromF = f, t, block
	case fPure && jumpTo(f) == t:
		j, fromT, fromF = t, block, f
	case tPure && fPure:
		rt, ok1 := t.Instrs[len(t.Instrs)-1].(*ssa.Return)
		rf, ok2 := f.Instrs[len(f.Instrs)-1].(*ssa.Return)
		if !ok1 || !ok2 || len(rt.Results) != len(rf.Results) || len(rt.Results) == 0 {
			return nil, nil, nil, false
		}
		for _, r := range rt.Results {
			if !scalarType(r.Type()) {
				return nil, nil, nil, false
			}
		}
		in.evalArm(p, fr, t)
		in.evalArm(p, fr, f)
		vals := make(TupleVal, len(rt.Results))
		for i := range rt.Results {
			vals[i] = p.ite(c, asTerm(in.get(p, fr, rt.Results[i])), asTerm(in.get(p, fr, rf.Results[i])))
		}
		if len(vals) == 1 {
			return nil, nil, vals[0], true
		}
		return nil, nil, vals, true
	default:
		return nil, nil, nil, false
	}
	if !phisScalar(j) || phiEdge(j, fromT) < 0 || phiEdge(j, fromF) < 0 {
		return nil, nil, nil, false
	}
	// the join must be entered only from the merged region's two edges for the ite to be complete
	if fromT != block {
		in.evalArm(p, fr, fromT)
	}
	if fromF != block {
		in.evalArm(p, fr, fromF)
	}
	phis := map[*ssa.Phi]Val{}
	it, ifx := phiEdge(j, fromT), phiEdge(j, fromF)
	for _, ins := range j.Instrs {
		phi, ok := ins.(*ssa.Phi)
		if !ok {
			break
		}
		phis[phi] = p.ite(c, asTerm(in.get(p, fr, phi.Edges[it])), asTerm(in.get(p, fr, phi.Edges[ifx])))
	}
	return j, phis, nil, true
}
