package main

import (
	"fmt"
	"go/types"
	"strings"

	"golang.org/x/tools/go/ssa"
)

// alertComparatorHarness: an engine-level harness (the comparator is an anonymous function inside
// cli.RunScanLogic and cannot be called from Go): two arbitrary alerts are put into the slice the
// closure captures; if neither sorts before the other they must be indistinguishable in the
// JSON output, otherwise the final order depends on the arrival order of the worker goroutines.
func alertComparatorHarness(c *CheckCtx, in *Interp) *HarnessResult {
	sp := in.ssaPkgs[cliPkg]
	if sp == nil {
		c.incon("internal/cli not loaded")
		return nil
	}
	var cmps []*ssa.Function
	for _, parent := range []string{"RunScanLogic"} {
		pf := sp.Func(parent)
		if pf == nil {
			continue
		}
		for _, an := range pf.AnonFuncs {
			sig := an.Signature
			if sig.Params().Len() == 2 && sig.Results().Len() == 1 && len(an.FreeVars) == 1 && strings.Contains(an.FreeVars[0].Type().String(), "ScanResult") {
				cmps = append(cmps, an)
			}
		}
	}
	if len(cmps) == 0 {
		c.incon("alert comparator closure not found in cli.RunScanLogic (code changed shape)")
		return nil
	}
	cfg := &HarnessCfg{Name: "engine:alert-comparator-total", Pkg: cliPkg, Solver: "z3", TimeoutMs: 30000}
	cfg.Entry = func(in *Interp, p *Path) {
		for _, cmp := range cmps {
			sliceT := cmp.FreeVars[0].Type().(*types.Pointer).Elem().Underlying().(*types.Slice)
			mk := func(tag string) *StructVal {
				sv := zero(sliceT.Elem()).(*StructVal)
				st := sliceT.Elem().Underlying().(*types.Struct)
				for i := 0; i < st.NumFields(); i++ {
					switch st.Field(i).Name() {
					case "SignatureID", "SignatureName", "Severity", "MatchedFunction":
						sv.f[i] = p.vxDeclStr(2, false, tag+"."+st.Field(i).Name())
					case "Confidence":
						cf := p.vxScalar(KFP, 64, tag+".Confidence")
						// alerts carry real confidences in [0,1] (C08)
						p.assume(p.and(p.fpCmp("fp.geq", cf, mkF64(0)), p.fpCmp("fp.leq", cf, mkF64(1))))
						sv.f[i] = cf
					}
				}
				return sv
			}
			a, b := mk("a"), mk("b")
			sl := newSlice([]Val{a, b})
			cell := &Pointer{obj: &Obj{val: sl}}
			less := func(i, j int) *Term {
				return asTerm(in.callFunction(p, nil, FuncVal{fn: cmp, free: []Val{cell}}, []Val{mkInt(int64(i)), mkInt(int64(j))}, nil))
			}
			tie := p.and(p.not(less(0, 1)), p.not(less(1, 0)))
			same := termTrue
			st := sliceT.Elem().Underlying().(*types.Struct)
			for i := 0; i < st.NumFields(); i++ {
				switch x := a.f[i].(type) {
				case StringVal:
					same = p.and(same, p.strEq(x, b.f[i].(StringVal)))
				case *Term:
					if x.K == KFP {
						same = p.and(same, p.fpCmp("fp.eq", x, b.f[i].(*Term))) // numeric equality (+0 and -0 are one confidence)
					}
				}
			}
			p.vxCover("tie-reachable", tie)
			p.vxAssert("alert-order-is-total:"+cmp.Name(), p.implies(tie, same))
		}
	}
	res := runHarness(in, cfg, 4)
	return res
}

func init() {
	checks["C10"] = func(c *CheckCtx) {
		initKnown()
		// 3 functions per side did not finish within 40 minutes (solver-chosen map order times the
		// similarity case splits): both tiers run 2; the thorough tier adds the native validation of witnesses
		mf := int64(2)
		cfgs := []*HarnessCfg{
			{Name: "VerifC10_MatcherOrder", Pkg: diffPkg, Solver: "cvc5", TimeoutMs: 60000, MaxPaths: 2000000, MapOrderSym: true, EngineReplay: true,
				Params: map[string]int64{"maxfuncs": mf}, Stubs: matcherStubs()},
			{Name: "VerifC10_WorkerOrder", Pkg: cliPkg, Solver: "z3", MaxPaths: 400000, EngineReplay: true, Params: map[string]int64{"schedsym": 1}, Stubs: c16LoaderStubs()},
		}
		c.Assumptions = append(c.Assumptions,
			"partial: the sources of run-to-run variation that are data - Go's map iteration order inside diff.MatchFunctionsByTopology (two executions with independent solver-chosen orders must agree) and the arrival order of per-file alert batches (the 'Deterministic Sort' comparator of cli.RunScanLogic must be a total order on JSON-visible fields)",
			"files of up to 2 functions per side (3 did not finish within 40 minutes), analyses stubbed as in C09; alerts with string fields of up to 2 bytes",
			"worker scheduling of the per-file check workers at block granularity: ProcessFilesParallel is run twice over three files (loader/read failures symbolic, strict mode symbolic), each time with the workers executed to completion in an independent solver-chosen order; the two reports must agree. Interleavings inside a worker are not explored",
			"goroutine scheduling inside go/packages, the JSON encoder, and everything downstream of C01 (fingerprint determinism) are NOT covered")
		c.runModeT([]string{"pkg/diff", "internal/cli"}, cfgs)
		// engine-level harness on the already loaded packages
		in, err := loadInterp([]string{"internal/cli"}, nil, nil, c.WorkDir)
		if err != nil {
			c.incon("cannot load internal/cli: " + err.Error())
			return
		}
		res := alertComparatorHarness(c, in)
		if res == nil {
			return
		}
		c.Results = append(c.Results, res)
		for _, m := range res.Inconclusive {
			c.incon("alert-comparator: " + m)
		}
		seen := map[string]bool{}
		for _, v := range res.Violations {
			if seen[v.Label] {
				continue
			}
			seen[v.Label] = true
			// confirmation: concrete re-execution of the comparator's SSA with the model's two alerts
			ccfg := *res.Cfg
			ccfg.Concrete = v.Vec
			cres := runHarness(in, &ccfg, 1)
			ok := false
			for _, cv := range cres.Violations {
				if cv.Label == v.Label {
					ok = true
				}
			}
			rf := &ReplayFile{Property: "C10", Harness: res.Cfg.Name, Label: v.Label, Vec: v.Vec, Tags: v.Tags, Note: "two alerts that the comparator leaves unordered although they differ"}
			path := c.saveReplay(rf, 0)
			c.Replays++
			if ok {
				c.Reproduced++
				c.Violations = append(c.Violations, fmt.Sprintf("VIOLATION property=C10 replay=%s", path))
				c.Samples = append(c.Samples, map[string]interface{}{"violation": v.Label, "replay": path, "confirmed_by": "concrete re-execution of the comparator closure's SSA"})
			} else {
				c.incon("alert comparator counterexample not confirmed by concrete re-execution")
			}
		}
	}
}
