package main

// Path exploration: stateless depth-first search by re-execution. A path is identified by its
// vector of decisions at symbolic branch points; alternatives are queued as decision prefixes
// and re-executed from the harness entry by any worker (no heap copying, trivially parallel).

import (
	"fmt"
	"os"
	"runtime/debug"
	"sort"
	"strings"
	"sync"
	"sync/atomic"
	"time"
)

type VxVar struct {
	Name string
	K    Kind
	W    int
	Tag  string
}

type pathEnd struct {
	kind string // "return" "infeasible" "panic" "unsupported" "unwind" "exit" "steps"
	msg  string
}

type Violation struct {
	Harness string            `json:"harness"`
	Label   string            `json:"label"`
	Known   string            `json:"known,omitempty"`
	Vec     []uint64          `json:"vec"`
	Tags    []string          `json:"tags,omitempty"`
	Trail   []int             `json:"trail"`
	Info    map[string]string `json:"info,omitempty"`
}

type HarnessCfg struct {
	Name        string // function name of the harness in its package
	Pkg         string // import path
	Solver      string // cvc5 | z3
	TimeoutMs   int
	Unwind      int  // symbolic iterations per (frame, branch instr)
	UnwindCut   bool // true: exceeding unwind is an assumption (counted), not inconclusive
	MaxPaths    int
	MaxSteps    int
	MapOrderSym bool // range over maps in an arbitrary (forked) order
	Cross       string
	Params      map[string]int64 // harness parameters readable through vxParam("name")
	Stubs       map[string]Intrinsic
	EngineReplay bool    // when the native replay cannot realise the schedule/fault, confirm by concrete re-execution of the real code's SSA with the model's values
	LoopCheck   bool     // C12: assert SCEV facts of the real loop analysis during execution
	MaxDepth    int      // call-depth bound (cut like an unwinding bound)
	Concrete    []uint64 // replay mode: vx primitives return these values instead of symbols
	Portfolio   []string // further solvers tried (one-shot) when the first answers unknown
	OneShot     bool // assertion queries go to a fresh non-incremental solver process
	FPUF        bool // float arithmetic as uninterpreted functions (sound for proving equalities such as symmetry)
	NoMerge     bool // disable ite-merging of pure diamonds (debugging / cross-validation)
	KeepWitnesses bool // keep a model for every satisfied cover
	Validate      int // >0: replay up to this many cover witnesses per label on the native build (model validation)
	NoValidate    string // reason why witnesses of this harness cannot be realised natively (stub answers that no real input produces, schedules, faults)
	Entry       func(in *Interp, p *Path) // engine-level harness body (instead of a Go harness function)
	PanicIsViol bool // a Go panic in the code under test counts as violation label "panic"
}

type HarnessResult struct {
	Cfg          *HarnessCfg
	Paths        int64
	Ends         map[string]int64
	Steps        int64
	Queries      int64
	SolverRestarts int64
	AssertsProved map[string]int64
	AssertsReached map[string]int64
	Covers       map[string]bool
	CoverSeen    map[string]bool
	Violations   []Violation
	KnownHits    []Violation
	Inconclusive []string
	Panics       []string
	CutPaths     int64
	Wall         float64
	Funcs        map[string]int // encoded functions -> instructions executed
	CrossDiff    []string
	ForkSites    map[string]int64
	Notes        map[string]int
	Witnesses    []Violation // models of satisfied covers (used by selftest: native run must agree)
	Reports      map[string][]int64
	mu           sync.Mutex
}

func (r *HarnessResult) note(msg string) {
	r.mu.Lock()
	defer r.mu.Unlock()
	r.Notes[msg]++
}

func (r *HarnessResult) incon(msg string) {
	r.mu.Lock()
	defer r.mu.Unlock()
	for _, m := range r.Inconclusive {
		if m == msg {
			return
		}
	}
	if len(r.Inconclusive) < 200 {
		r.Inconclusive = append(r.Inconclusive, msg)
	}
}

type Explorer struct {
	in    *Interp
	cfg   *HarnessCfg
	res   *HarnessResult
	queue [][]int
	qmu   sync.Mutex
	qcond *sync.Cond
	busy  int
	done  bool
	npath int64
}

type Path struct {
	ex      *Explorer
	sv      *Solver
	sv2     *Solver
	script  []string
	sent    int
	prefix  []int
	pos     int
	trail   []int
	nsym    int
	vx      []VxVar
	known   map[string]*Term
	steps   int
	decls   []string // alias kept for smt.go (appends go to script through hook below)
	funcs   map[string]int
	unwind  map[unwindKey]int
	stubs   map[string]Val // per-path environment stub state (os.Environ etc.)
	events  []string
	outcome map[string]Val
	depth   int
	prefs   []*Term
	site    string
}

type unwindKey struct {
	fr  *Frame
	ins interface{}
}

// smt.go appends to p.decls; we merge decls into the ordered script lazily.
func (p *Path) flushDecls() {
	if len(p.decls) > 0 {
		p.script = append(p.script, p.decls...)
		p.decls = p.decls[:0]
	}
}

func (p *Path) assume(c *Term) {
	if c.C && c.B {
		return
	}
	p.flushDecls()
	p.script = append(p.script, "(assert "+c.S+")")
}

func (p *Path) sync() {
	p.flushDecls()
	for ; p.sent < len(p.script); p.sent++ {
		p.sv.send(p.script[p.sent])
	}
}

// reviveSolver replaces a dead solver process and re-sends this path's assertion stack.
func (p *Path) reviveSolver() bool {
	if p.sv.deaths >= 6 {
		return false
	}
	if err := p.sv.restart(); err != nil {
		return false
	}
	atomic.AddInt64(&p.ex.res.SolverRestarts, 1)
	p.sv.send("(push 1)")
	p.sent = 0
	p.sync()
	return !p.sv.dead
}

// query: is pc ∧ extras satisfiable?
func (p *Path) query(wantModel bool, extras ...*Term) (string, map[string]string) {
	for _, e := range extras {
		if e.C && !e.B {
			return "unsat", nil
		}
	}
	p.sync()
	if p.sv.dead && !p.reviveSolver() {
		return "error", nil
	}
	atomic.AddInt64(&p.ex.res.Queries, 1)
	ask := func() string {
		p.sv.send("(push 1)")
		for _, e := range extras {
			if !(e.C && e.B) {
				p.sv.send("(assert " + e.S + ")")
			}
		}
		return p.sv.check()
	}
	r := ask()
	if r == "error" && p.sv.dead && p.reviveSolver() {
		// the solver process died on this query (crash / out of memory): one retry on a fresh process
		r = ask()
	}
	var model map[string]string
	if r == "sat" && wantModel {
		names := make([]string, len(p.vx))
		for i, v := range p.vx {
			names[i] = v.Name
		}
		m, err := p.sv.getValues(names)
		if err == nil {
			model = m
		}
	}
	p.sv.send("(pop 1)")
	if r == "error" || r == "unknown" {
		// surface for evidence; callers decide what it means
	}
	return r, model
}

// hardQuery: an assertion-level query, decided by a fresh non-incremental solver process.
func (p *Path) hardQuery(wantModel bool, extras ...*Term) (string, map[string]string) {
	for _, e := range extras {
		if e.C && !e.B {
			return "unsat", nil
		}
	}
	if !p.ex.cfg.OneShot {
		return p.query(wantModel, extras...)
	}
	p.flushDecls()
	atomic.AddInt64(&p.ex.res.Queries, 1)
	var ex []string
	for _, e := range extras {
		if !(e.C && e.B) {
			ex = append(ex, e.S)
		}
	}
	var names []string
	if wantModel {
		for _, v := range p.vx {
			names = append(names, v.Name)
		}
	}
	r, m := oneShot(p.ex.cfg.Solver, p.script, ex, p.ex.cfg.TimeoutMs, names)
	if r == "unknown" || r == "error" {
		for _, alt := range p.ex.cfg.Portfolio {
			r2, m2 := oneShot(alt, p.script, ex, p.ex.cfg.TimeoutMs, names)
			if r2 == "sat" || r2 == "unsat" {
				return r2, m2
			}
		}
	}
	return r, m
}

// one-shot second opinion on another solver
func (p *Path) crossQuery(extras ...*Term) string {
	if p.sv2 == nil || p.sv2.dead {
		return "skip"
	}
	p.flushDecls()
	p.sv2.send("(push 1)")
	for _, l := range p.script {
		p.sv2.send(l)
	}
	for _, e := range extras {
		p.sv2.send("(assert " + e.S + ")")
	}
	r := p.sv2.check()
	p.sv2.send("(pop 1)")
	return r
}

func (p *Path) end(kind, msg string) {
	panic(pathEnd{kind, msg})
}

// branch decides a symbolic condition, forking when both sides are feasible.
func (p *Path) branch(c *Term) bool {
	if c.C {
		return c.B
	}
	if p.pos < len(p.prefix) {
		d := p.prefix[p.pos]
		p.pos++
		p.trail = append(p.trail, d)
		if d == 1 {
			p.assume(c)
		} else {
			p.assume(p.not(c))
		}
		return d == 1
	}
	p.pos++
	r, _ := p.query(false, c)
	if r == "unsat" {
		p.trail = append(p.trail, 0)
		return false
	}
	if r != "sat" {
		p.ex.res.note(fmt.Sprintf("feasibility query %s (branch kept: sound over-approximation)", r))
	}
	nc := p.not(c)
	r2, _ := p.query(false, nc)
	if r2 != "unsat" {
		if r2 != "sat" {
			p.ex.res.note(fmt.Sprintf("feasibility query %s (branch kept: sound over-approximation)", r2))
		}
		alt := append(append([]int(nil), p.trail...), 0)
		p.ex.push(alt)
		p.ex.res.mu.Lock()
		if p.ex.res.ForkSites != nil {
			p.ex.res.ForkSites[p.site]++
		}
		p.ex.res.mu.Unlock()
	}
	p.trail = append(p.trail, 1)
	p.assume(c)
	return true
}

// chooseFree forks n ways without constraints (permutation / schedule choices).
func (p *Path) chooseFree(n int) int {
	if n <= 1 {
		return 0
	}
	if p.pos < len(p.prefix) {
		d := p.prefix[p.pos]
		p.pos++
		p.trail = append(p.trail, d)
		return d
	}
	p.pos++
	for i := 1; i < n; i++ {
		alt := append(append([]int(nil), p.trail...), i)
		p.ex.push(alt)
	}
	p.trail = append(p.trail, 0)
	return 0
}

// concretize forks over the feasible values lo..hi of t.
func (p *Path) concretize(t *Term, lo, hi int) int {
	if t.C {
		return int(sext(t.U, t.W))
	}
	for v := lo; v < hi; v++ {
		if p.branch(p.bvCmp("=", t, mkBV(t.W, uint64(int64(v))))) {
			return v
		}
	}
	// last candidate: must hold (assume it; if infeasible the path dies)
	c := p.bvCmp("=", t, mkBV(t.W, uint64(int64(hi))))
	if !p.branch(c) {
		p.end("infeasible", "concretize out of range")
	}
	return hi
}

func (p *Path) model2vec(model map[string]string) ([]uint64, []string) {
	vec := make([]uint64, len(p.vx))
	tags := make([]string, len(p.vx))
	for i, v := range p.vx {
		u, _ := parseModelValue(model[v.Name], v.K, v.W)
		vec[i] = u
		tags[i] = v.Tag
	}
	return vec, tags
}

func (p *Path) knownUnion() *Term {
	ids := make([]string, 0, len(p.known))
	for id := range p.known {
		ids = append(ids, id)
	}
	sort.Strings(ids)
	u := termFalse
	for _, id := range ids {
		u = p.or(u, p.known[id])
	}
	return u
}

func (p *Path) vxAssert(label string, c *Term) {
	res := p.ex.res
	res.mu.Lock()
	res.AssertsReached[label]++
	res.mu.Unlock()
	if c.C && c.B {
		res.mu.Lock()
		res.AssertsProved[label]++
		res.mu.Unlock()
		return
	}
	if p.ex.cfg.Concrete != nil {
		// concrete replay mode: the fact is simply true or false on this run; record and keep going
		bad := c.C && !c.B
		if !c.C {
			r, _ := p.query(false, p.not(c))
			bad = r == "sat"
		}
		if bad {
			res.mu.Lock()
			res.Violations = append(res.Violations, Violation{Harness: p.ex.cfg.Name, Label: label, Vec: p.ex.cfg.Concrete, Trail: append([]int(nil), p.trail...)})
			res.mu.Unlock()
		}
		return
	}
	neg := p.not(c)
	outside := p.not(p.knownUnion())
	if d := os.Getenv("VERIF_DUMP"); d != "" {
		p.flushDecls()
		os.MkdirAll(d, 0755)
		f := fmt.Sprintf("%s/%s-%s-%d.smt2", d, p.ex.cfg.Name, strings.ReplaceAll(label, "/", "_"), atomic.AddInt64(&p.ex.npath, 0)*1000+int64(len(p.trail)))
		os.WriteFile(f, []byte(strings.Join(p.script, "\n")+"\n(assert "+neg.S+")\n(check-sat)\n(get-model)\n"), 0644)
	}
	var r string
	var model map[string]string
	if len(p.prefs) > 0 {
		// soft constraints first: prefer counterexamples the native replayer can realise
		r, model = p.hardQuery(true, append([]*Term{neg, outside}, p.prefs...)...)
		if r != "sat" {
			r, model = p.hardQuery(true, neg, outside)
		}
	} else {
		r, model = p.hardQuery(true, neg, outside)
	}
	switch r {
	case "sat":
		vec, tags := p.model2vec(model)
		res.mu.Lock()
		if len(res.Violations) < 50 {
			res.Violations = append(res.Violations, Violation{Harness: p.ex.cfg.Name, Label: label, Vec: vec, Tags: tags, Trail: append([]int(nil), p.trail...)})
		}
		res.mu.Unlock()
	case "unsat":
		if p.ex.cfg.Cross != "" {
			if r2 := p.crossQuery(neg, outside); r2 != "unsat" && r2 != "skip" {
				res.mu.Lock()
				res.CrossDiff = append(res.CrossDiff, fmt.Sprintf("%s: %s=unsat %s=%s", label, p.sv.kind, p.sv2.kind, r2))
				res.mu.Unlock()
			}
		}
		res.mu.Lock()
		res.AssertsProved[label]++
		res.mu.Unlock()
	default:
		res.incon(fmt.Sprintf("assert %s: solver %s", label, r))
	}
	ids := make([]string, 0, len(p.known))
	for id := range p.known {
		ids = append(ids, id)
	}
	sort.Strings(ids)
	for _, id := range ids {
		rk, mk := p.hardQuery(true, neg, p.known[id])
		if rk == "sat" {
			vec, tags := p.model2vec(mk)
			res.mu.Lock()
			if len(res.KnownHits) < 50 {
				res.KnownHits = append(res.KnownHits, Violation{Harness: p.ex.cfg.Name, Label: label, Known: id, Vec: vec, Tags: tags, Trail: append([]int(nil), p.trail...)})
			}
			res.mu.Unlock()
		} else if rk != "unsat" {
			res.incon(fmt.Sprintf("assert %s in known region %s: solver %s", label, id, rk))
		}
	}
	p.assume(c)
	// the path continues under the asserted condition; if it is now infeasible stop quietly
	if r == "sat" {
		if rr, _ := p.query(false); rr == "unsat" {
			p.end("infeasible", "after violated assert")
		}
	}
}

func (p *Path) vxCover(label string, c *Term) {
	res := p.ex.res
	res.mu.Lock()
	res.Covers[label] = true
	seen := res.CoverSeen[label]
	res.mu.Unlock()
	if seen {
		return
	}
	r, model := p.query(p.ex.cfg.KeepWitnesses, c)
	if r == "sat" {
		res.mu.Lock()
		res.CoverSeen[label] = true
		if p.ex.cfg.KeepWitnesses && model != nil {
			vec, tags := p.model2vec(model)
			res.Witnesses = append(res.Witnesses, Violation{Harness: p.ex.cfg.Name, Label: label, Vec: vec, Tags: tags})
		}
		res.mu.Unlock()
	}
}

func (ex *Explorer) push(prefix []int) {
	ex.qmu.Lock()
	ex.queue = append(ex.queue, prefix)
	ex.qmu.Unlock()
	ex.qcond.Signal()
}

func (ex *Explorer) pop() ([]int, bool) {
	ex.qmu.Lock()
	defer ex.qmu.Unlock()
	for {
		if ex.done {
			return nil, false
		}
		if n := len(ex.queue); n > 0 {
			pf := ex.queue[n-1] // LIFO: depth first keeps the queue short
			ex.queue = ex.queue[:n-1]
			ex.busy++
			return pf, true
		}
		if ex.busy == 0 {
			ex.done = true
			ex.qcond.Broadcast()
			return nil, false
		}
		ex.qcond.Wait()
	}
}

func (ex *Explorer) finish() {
	ex.qmu.Lock()
	ex.busy--
	if ex.busy == 0 && len(ex.queue) == 0 {
		ex.done = true
	}
	ex.qmu.Unlock()
	ex.qcond.Broadcast()
}

func runHarness(in *Interp, cfg *HarnessCfg, workers int) *HarnessResult {
	if cfg.Solver == "" {
		cfg.Solver = "z3"
	}
	if cfg.TimeoutMs == 0 {
		cfg.TimeoutMs = 30000
	}
	if cfg.Unwind == 0 {
		cfg.Unwind = 64
	}
	if cfg.MaxPaths == 0 {
		cfg.MaxPaths = 200000
	}
	if cfg.MaxSteps == 0 {
		cfg.MaxSteps = 5000000
	}
	res := &HarnessResult{Cfg: cfg, Ends: map[string]int64{}, AssertsProved: map[string]int64{}, AssertsReached: map[string]int64{},
		Covers: map[string]bool{}, CoverSeen: map[string]bool{}, Funcs: map[string]int{}, ForkSites: map[string]int64{}, Notes: map[string]int{}}
	ex := &Explorer{in: in, cfg: cfg, res: res}
	ex.qcond = sync.NewCond(&ex.qmu)
	ex.queue = [][]int{{}}
	t0 := time.Now()
	gFPUF = cfg.FPUF
	defer func() { gFPUF = false }()
	var fn interface{}
	if cfg.Entry == nil {
		fn = in.lookupFunc(cfg.Pkg, cfg.Name)
	} else {
		fn = cfg.Entry
	}
	if fn == nil {
		res.incon(fmt.Sprintf("harness %s.%s not found (does it still compile against the tree?)", cfg.Pkg, cfg.Name))
		return res
	}
	if os.Getenv("VERIF_DEBUG") != "" {
		stop := make(chan struct{})
		defer close(stop)
		go func() {
			for {
				select {
				case <-stop:
					return
				case <-time.After(10 * time.Second):
					res.mu.Lock()
					ex.qmu.Lock()
					ql := len(ex.queue)
					ex.qmu.Unlock()
					fmt.Fprintf(os.Stderr, "[%s] paths=%d ends=%v queue=%d forks=%v incon=%d\n", cfg.Name, atomic.LoadInt64(&ex.npath), res.Ends, ql, topN(res.ForkSites, 8), len(res.Inconclusive))
					res.mu.Unlock()
				}
			}
		}()
	}
	var wg sync.WaitGroup
	for w := 0; w < workers; w++ {
		wg.Add(1)
		go func() {
			defer wg.Done()
			var sv, sv2 *Solver
			defer func() { sv.close(); sv2.close() }()
			for {
				pf, ok := ex.pop()
				if !ok {
					return
				}
				if sv == nil || sv.dead {
					sv.close()
					var err error
					sv, err = startSolver(cfg.Solver, cfg.TimeoutMs)
					if err != nil {
						res.incon("cannot start solver: " + err.Error())
						ex.finish()
						return
					}
				}
				if cfg.Cross != "" && (sv2 == nil || sv2.dead) {
					sv2.close()
					sv2, _ = startSolver(cfg.Cross, cfg.TimeoutMs)
				}
				n := atomic.AddInt64(&ex.npath, 1)
				if n > int64(cfg.MaxPaths) {
					res.incon(fmt.Sprintf("path budget %d exhausted (remaining paths not explored)", cfg.MaxPaths))
					ex.finish()
					continue
				}
				ex.runPath(fn, pf, sv, sv2)
				ex.finish()
			}
		}()
	}
	wg.Wait()
	res.Paths = ex.npath
	res.Wall = time.Since(t0).Seconds()
	for l := range res.Covers {
		if !res.CoverSeen[l] {
			res.incon("cover never satisfied (vacuity): " + l)
		}
	}
	return res
}

func (ex *Explorer) runPath(fn interface{}, prefix []int, sv, sv2 *Solver) {
	p := &Path{ex: ex, sv: sv, sv2: sv2, prefix: prefix, known: map[string]*Term{}, funcs: map[string]int{},
		unwind: map[unwindKey]int{}, stubs: map[string]Val{}}
	sv.send("(push 1)")
	endKind, endMsg := "return", ""
	func() {
		defer func() {
			if r := recover(); r != nil {
				if pe, ok := r.(pathEnd); ok {
					endKind, endMsg = pe.kind, pe.msg
					return
				}
				endKind = "engine-error"
				endMsg = fmt.Sprintf("%v\n%s", r, truncate(string(debug.Stack()), 3000))
			}
		}()
		ex.in.runEntry(p, fn)
	}()
	sv.send("(pop 1)")
	res := ex.res
	res.mu.Lock()
	res.Ends[endKind]++
	res.Steps += int64(p.steps)
	for k, v := range p.funcs {
		res.Funcs[k] += v
	}
	res.mu.Unlock()
	switch endKind {
	case "unsupported", "engine-error", "steps":
		res.incon(endKind + ": " + firstLine(endMsg))
		if endKind == "engine-error" && os.Getenv("VERIF_DEBUG") != "" {
			fmt.Fprintln(os.Stderr, endMsg)
		}
	case "unwind":
		if ex.cfg.UnwindCut {
			atomic.AddInt64(&res.CutPaths, 1)
		} else {
			res.incon("unwinding bound exceeded: " + endMsg)
		}
	case "panic":
		res.mu.Lock()
		if len(res.Panics) < 20 {
			res.Panics = append(res.Panics, endMsg)
		}
		res.mu.Unlock()
	}
}

func truncate(s string, n int) string {
	if len(s) > n {
		return s[:n]
	}
	return s
}

func firstLine(s string) string {
	if i := strings.IndexByte(s, '\n'); i >= 0 {
		return s[:i]
	}
	return s
}

func topN(m map[string]int64, n int) []string {
	type kv struct {
		k string
		v int64
	}
	var l []kv
	for k, v := range m {
		l = append(l, kv{k, v})
	}
	sort.Slice(l, func(i, j int) bool { return l[i].v > l[j].v })
	var out []string
	for i := 0; i < len(l) && i < n; i++ {
		out = append(out, fmt.Sprintf("%s:%d", l[i].k, l[i].v))
	}
	return out
}
