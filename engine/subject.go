package main

// Mode S: the tool (canonicaliser, zipper, diff) runs natively on generated subject programs;
// the subject programs themselves are executed symbolically so that "behaves differently on some
// input" is decided by the solver over the whole (bounded) input space.

import (
	"encoding/json"
	"fmt"
	"os"
	"os/exec"
	"path/filepath"
	"sort"
	"strings"

	"github.com/BlackVectorOps/semantic_firewall/v3/internal/cli"
	"github.com/BlackVectorOps/semantic_firewall/v3/pkg/analysis/ir"
	"github.com/BlackVectorOps/semantic_firewall/v3/pkg/diff"
	"golang.org/x/tools/go/ssa"
)

const subjHelpers = `package subj

// observable effects of subject functions: calls to use() are recorded, get() is an input stream
var trace []int
var inputs [4]int
var inputPos int

func use(x int) { trace = append(trace, x) }
func get() int {
	v := inputs[inputPos&3]
	inputPos++
	return v
}
`

const subjNative = `//go:build verif_harness

package subj

import (
	"fmt"
	"runtime"
	"strings"
)

func vxInts(max int) []int {
	n := int(vxNext())
	e := make([]int, max)
	for i := range e {
		e[i] = int(vxNext())
	}
	if n > max || n < 0 {
		n = max
	}
	return e[:n]
}

func vxIntsEq(a, b []int) bool {
	if len(a) != len(b) {
		return false
	}
	for i := range a {
		if a[i] != b[i] {
			return false
		}
	}
	return true
}

func vxCloneInts(a []int) []int { return append([]int(nil), a...) }

func vxResetSubj(in [4]int) {
	trace = nil
	inputs = in
	inputPos = 0
}

func vxTraceCopy() []int { return append([]int(nil), trace...) }

func vxReportInts(name string, v []int) { fmt.Println("VXREPORT", name, v) }

// vxCatch runs f and classifies how it ended: 0 returned, otherwise the kind of panic.
func vxCatch(f func()) (code int) {
	defer func() {
		if r := recover(); r != nil {
			if _, isStop := r.(vxStop); isStop {
				panic(r)
			}
			code = 9
			if re, ok := r.(runtime.Error); ok {
				m := re.Error()
				switch {
				case strings.Contains(m, "index out of range"):
					code = 1
				case strings.Contains(m, "slice bounds out of range"):
					code = 2
				case strings.Contains(m, "divide by zero"):
					code = 3
				case strings.Contains(m, "nil pointer"):
					code = 4
				case strings.Contains(m, "nil map"):
					code = 6
				case strings.Contains(m, "negative shift"):
					code = 7
				}
			} else {
				code = 5
			}
		}
	}()
	f()
	return 0
}
`

type SFunc struct {
	Name string
	Item *SItem
	Var  *SVar
}

func (f *SFunc) params() []SParam {
	if f.Var != nil && f.Var.Par != nil {
		return f.Var.Par
	}
	return f.Item.Par
}

func emitFunc(name string, par []SParam, ret []string, pre, body string) string {
	pname := name
	if i := strings.IndexByte(name, '_'); i > 0 {
		pname = name[:i]
	}
	pre = strings.ReplaceAll(pre, "PFN", pname)
	body = strings.ReplaceAll(body, "PFN", pname)
	var sb strings.Builder
	if pre != "" {
		sb.WriteString(strings.ReplaceAll(pre, "FN", name) + "\n\n")
	}
	var ps []string
	for _, p := range par {
		ps = append(ps, p.N+" "+strings.ReplaceAll(strings.ReplaceAll(p.T, "PFN", pname), "FN", name))
	}
	rs := ""
	switch len(ret) {
	case 0:
	case 1:
		rs = " " + ret[0]
	default:
		rs = " (" + strings.Join(ret, ", ") + ")"
	}
	b := strings.ReplaceAll(strings.ReplaceAll(body, "SELF", name), "FN", name)
	sb.WriteString(fmt.Sprintf("func %s(%s)%s {\n\t%s\n}\n\n", name, strings.Join(ps, ", "), rs, b))
	return sb.String()
}

func pName(it *SItem) string { return "F" + it.ID }
func qName(it *SItem, v *SVar) string { return "F" + it.ID + "_" + v.Tag }

func vxForType(t string) string {
	switch t {
	case "int":
		return "vxInt()"
	case "int8":
		return "vxI8()"
	case "uint8":
		return "vxU8()"
	case "bool":
		return "vxBool()"
	case "float64":
		return "vxF64()"
	case "uint64":
		return "vxU64()"
	}
	if strings.HasSuffix(t, "_lv") {
		return t + "(vxInt())"
	}
	if strings.HasSuffix(t, "_tag") {
		return t + "(vxConcretizeLen(vxStr(3)))"
	}
	switch t {
	case "string":
		return "vxConcretizeLen(vxStr(3))"
	case "[]int":
		return "vxInts(3)"
	}
	panic("unsupported subject parameter type " + t)
}

func emitDriver(it *SItem, v *SVar) string {
	var sb strings.Builder
	name := fmt.Sprintf("VerifEq_%s_%s", it.ID, v.Tag)
	sb.WriteString(fmt.Sprintf("// %s vs %s  [%s]\nfunc %s() {\n", pName(it), qName(it, v), v.Kind, name))
	var slices []string
	for i, p := range it.Par {
		sb.WriteString(fmt.Sprintf("\tx%d := %s\n", i, vxForType(strings.ReplaceAll(p.T, "FN", pName(it)))))
		if p.T == "[]int" {
			slices = append(slices, fmt.Sprintf("%d", i))
		}
	}
	sb.WriteString("\tvar in [4]int\n\tfor i := range in {\n\t\tin[i] = vxInt()\n\t}\n")
	run := func(side int, fn string) {
		sb.WriteString("\tvxResetSubj(in)\n")
		var args []string
		for i, p := range it.Par {
			if p.T == "[]int" {
				sb.WriteString(fmt.Sprintf("\ts%d_%d := vxCloneInts(x%d)\n", side, i, i))
				args = append(args, fmt.Sprintf("s%d_%d", side, i))
			} else {
				args = append(args, fmt.Sprintf("x%d", i))
			}
		}
		var lhs []string
		for i, r := range it.Ret {
			sb.WriteString(fmt.Sprintf("\tvar r%d_%d %s\n", side, i, r))
			lhs = append(lhs, fmt.Sprintf("r%d_%d", side, i))
		}
		call := fmt.Sprintf("%s(%s)", fn, strings.Join(args, ", "))
		if len(lhs) > 0 {
			call = strings.Join(lhs, ", ") + " = " + call
		}
		sb.WriteString(fmt.Sprintf("\tc%d := vxCatch(func() { %s })\n", side, call))
		sb.WriteString(fmt.Sprintf("\tt%d := vxTraceCopy()\n", side))
	}
	run(1, pName(it))
	run(2, qName(it, v))
	sb.WriteString("\tsame := c1 == c2\n")
	if len(it.Ret) > 0 {
		sb.WriteString("\tif c1 == 0 && c2 == 0 {\n")
		for i, r := range it.Ret {
			if r == "string" {
				sb.WriteString(fmt.Sprintf("\t\tsame = vxAnd(same, vxStrEq(r1_%d, r2_%d))\n", i, i))
			} else if r == "float64" {
				sb.WriteString(fmt.Sprintf("\t\tsame = vxAnd(same, vxSameF64(r1_%d, r2_%d))\n", i, i))
			} else {
				sb.WriteString(fmt.Sprintf("\t\tsame = vxAnd(same, r1_%d == r2_%d)\n", i, i))
			}
		}
		sb.WriteString("\t}\n")
	}
	sb.WriteString("\tsame = vxAnd(same, vxIntsEq(t1, t2))\n")
	for _, i := range slices {
		sb.WriteString(fmt.Sprintf("\tsame = vxAnd(same, vxIntsEq(s1_%s, s2_%s))\n", i, i))
	}
	sb.WriteString("\tvxCover(\"both-return\", c1 == 0)\n")
	sb.WriteString("\tvxAssert(\"equivalent\", same)\n}\n\n")
	return sb.String()
}

type SubjWorld struct {
	Dir    string
	Items  []SItem
	Src    string
	FpKeep map[string]string
	FpDef  map[string]string
	IRKeep map[string]string
	in     *Interp
}

func writeRT(dir, pkg string) error {
	tmpl, err := os.ReadFile(filepath.Join(verifDir, "harness", "rt.go.tmpl"))
	if err != nil {
		return err
	}
	rt := strings.Replace(string(tmpl), "package PKG", "package "+pkg, 1)
	return os.WriteFile(filepath.Join(dir, "zz_rt.go"), []byte(rt), 0644)
}

// buildSubjWorld writes the subject package and fingerprints every function with the real tool.
func buildSubjWorld(dir string, items []SItem, withDrivers bool) (*SubjWorld, error) {
	os.MkdirAll(dir, 0755)
	w := &SubjWorld{Dir: dir, Items: items}
	var src strings.Builder
	src.WriteString(subjHelpers + "\n")
	var drv strings.Builder
	drv.WriteString("//go:build verif_harness\n\npackage subj\n\n")
	for i := range items {
		it := &items[i]
		src.WriteString(emitFunc(pName(it), it.Par, it.Ret, it.Pre, it.Body))
		for j := range it.Vars {
			v := &it.Vars[j]
			par := it.Par
			if v.Par != nil {
				par = v.Par
			}
			src.WriteString(emitFunc(qName(it, v), par, it.Ret, v.Pre, v.Body))
			drv.WriteString(emitDriver(it, v))
		}
	}
	w.Src = src.String()
	if err := os.WriteFile(filepath.Join(dir, "go.mod"), []byte("module subj\n\ngo 1.23\n"), 0644); err != nil {
		return nil, err
	}
	if err := os.WriteFile(filepath.Join(dir, "subj.go"), []byte(w.Src), 0644); err != nil {
		return nil, err
	}
	if withDrivers {
		os.WriteFile(filepath.Join(dir, "zz_drivers.go"), []byte(drv.String()), 0644)
		os.WriteFile(filepath.Join(dir, "zz_native.go"), []byte(subjNative), 0644)
		if err := writeRT(dir, "subj"); err != nil {
			return nil, err
		}
	}
	// the tool, natively
	abs := filepath.Join(dir, "subj.go")
	keep, err := diff.FingerprintSource(abs, w.Src, ir.KeepAllLiteralsPolicy)
	if err != nil {
		return nil, fmt.Errorf("tool failed on subject package: %w", err)
	}
	def, err := diff.FingerprintSource(abs, w.Src, ir.DefaultLiteralPolicy)
	if err != nil {
		return nil, fmt.Errorf("tool failed on subject package: %w", err)
	}
	w.FpKeep, w.FpDef, w.IRKeep = map[string]string{}, map[string]string{}, map[string]string{}
	for _, r := range keep {
		w.FpKeep[diff.ShortFuncName(r.FunctionName)] = r.Fingerprint
		w.IRKeep[diff.ShortFuncName(r.FunctionName)] = r.CanonicalIR
	}
	for _, r := range def {
		w.FpDef[diff.ShortFuncName(r.FunctionName)] = r.Fingerprint
	}
	return w, nil
}

func (w *SubjWorld) loadEngine() error {
	if w.in != nil {
		return nil
	}
	in, err := loadSubjInterp(w.Dir)
	if err != nil {
		return err
	}
	w.in = in
	return nil
}

// nativeReplaySubj replays a driver's counterexample with `go test` inside the subject module.
func nativeReplaySubj(dir string, harnesses []string, replayPath string) (string, string, string) {
	var sb strings.Builder
	sb.WriteString("//go:build " + harnessTag + "\n\npackage subj\n\nimport \"testing\"\n\nfunc TestVerifReplay(t *testing.T) {\n\tvxReplayMain(map[string]func(){\n")
	for _, n := range harnesses {
		sb.WriteString(fmt.Sprintf("\t\t%q: %s,\n", n, n))
	}
	sb.WriteString("\t})\n}\n")
	os.WriteFile(filepath.Join(dir, "zz_replay_test.go"), []byte(sb.String()), 0644)
	cmd := exec.Command("go", "test", "-tags", harnessTag, "-vet=off", "-count=1", "-v", "-run", "^TestVerifReplay$", ".")
	cmd.Dir = dir
	cmd.Env = append(goEnv(), "VERIF_REPLAY="+replayPath, "GOFLAGS=-mod=mod")
	out, _ := cmd.CombinedOutput()
	o := string(out)
	for _, line := range strings.Split(o, "\n") {
		if i := strings.Index(line, "VXRESULT "); i >= 0 {
			f := strings.TrimSpace(line[i+9:])
			if strings.HasPrefix(f, "violated=") {
				return strings.TrimPrefix(f, "violated="), "violated", o
			}
			return "", f, o
		}
	}
	return "", "no-result", o
}

type PairVerdict struct {
	Item    *SItem
	Var     *SVar
	Verdict string // "equivalent" | "differ" | "undecided"
	Replay  string
	Why     string
	Res     *HarnessResult
}

// decidePair asks the solver whether P and Q differ on some input (bounded by the unwinding limit).
func (w *SubjWorld) decidePair(c *CheckCtx, it *SItem, v *SVar) *PairVerdict {
	pv := &PairVerdict{Item: it, Var: v}
	if err := w.loadEngine(); err != nil {
		pv.Verdict, pv.Why = "undecided", "engine cannot load subject package: "+err.Error()
		return pv
	}
	unwind := it.Unwind
	if unwind == 0 {
		unwind = 8
	}
	name := fmt.Sprintf("VerifEq_%s_%s", it.ID, v.Tag)
	cfg := &HarnessCfg{Name: name, Pkg: "subj", Solver: "z3", TimeoutMs: 60000, Unwind: unwind, UnwindCut: true, MaxPaths: 20000, MaxDepth: 14}
	res := runHarness(w.in, cfg, gWorkers)
	pv.Res = res
	c.Results = append(c.Results, res)
	if len(res.Violations) > 0 {
		tries := 0
		for _, viol := range res.Violations {
			if tries >= 4 {
				break
			}
			tries++
			rf := &ReplayFile{Property: c.ID, Harness: name, Label: viol.Label, Vec: viol.Vec, Tags: viol.Tags,
				Note: fmt.Sprintf("mode S pair %s vs %s kind=%s", pName(it), qName(it, v), v.Kind)}
			path := c.saveReplay(rf, len(c.Samples)+tries)
			c.Replays++
			_, st, _ := nativeReplaySubj(w.Dir, []string{name}, path)
			if st == "violated" {
				c.Reproduced++
				pv.Verdict, pv.Replay = "differ", path
				return pv
			}
			pv.Why = "distinguishing input did not reproduce natively (" + st + ")"
		}
		pv.Verdict = "undecided"
		return pv
	}
	if len(res.Inconclusive) > 0 {
		pv.Verdict, pv.Why = "undecided", strings.Join(res.Inconclusive, "; ")
		return pv
	}
	pv.Verdict = "equivalent"
	return pv
}

func loadSubjInterp(dir string) (*Interp, error) {
	return loadInterpDir(dir, []string{"."}, []string{"subj"})
}

// ---------------------------------------------------------------- known findings by catalogue kind

// knownForPair: a listed finding names the exact catalogue pairs ("pair:FL04/FL04_ivswap") it covers,
// so that any other pair violating the same property is still reported as a violation.
func knownForPair(prop, pn, qn string) (KnownFinding, bool) {
	for _, k := range loadKnown() {
		if k.Property == prop && k.Status == "known" && k.Region != "" {
			for _, r := range strings.Split(k.Region, ",") {
				if strings.TrimSpace(r) == "pair:"+pn+"/"+qn {
					return k, true
				}
			}
		}
	}
	return KnownFinding{}, false
}

func literalOnly(kind string) bool { return strings.HasPrefix(kind, "literal:") }

func selectItems(items []SItem, tier string) []SItem {
	return items
}

func sortedKeys(m map[string]int) []string {
	var ks []string
	for k := range m {
		ks = append(ks, k)
	}
	sort.Strings(ks)
	return ks
}

// ---------------------------------------------------------------- C03

func init() {
	checks["C03"] = func(c *CheckCtx) {
		c.Level = "translation_validation"
		items := selectItems(catalogue(), c.Tier)
		w, err := buildSubjWorld(filepath.Join(c.WorkDir, "subj"), items, true)
		if err != nil {
			c.incon(err.Error())
			return
		}
		kinds := map[string]int{}
		separated, collisions := 0, 0
		for i := range items {
			it := &items[i]
			for j := range it.Vars {
				v := &it.Vars[j]
				c.Programs++
				kinds[v.Kind]++
				pn, qn := pName(it), qName(it, v)
				eqKeep := w.FpKeep[pn] != "" && w.FpKeep[pn] == w.FpKeep[qn]
				eqDef := w.FpDef[pn] != "" && w.FpDef[pn] == w.FpDef[qn]
				if w.FpKeep[pn] == "" || w.FpKeep[qn] == "" {
					c.incon("tool produced no fingerprint for " + pn + "/" + qn)
					continue
				}
				// default policy: pairs that differ only in documented-abstracted literals are excluded
				mustDecide := eqKeep || (eqDef && !literalOnly(v.Kind))
				if !mustDecide {
					separated++
					continue
				}
				collisions++
				c.Disagree++
				pv := w.decidePair(c, it, v)
				policy := "keep-all-literals"
				if !eqKeep {
					policy = "default"
				}
				sample := map[string]interface{}{"pair": pn + " vs " + qn, "kind": v.Kind, "fingerprints_equal_under": policy, "solver_verdict": pv.Verdict}
				switch pv.Verdict {
				case "differ":
					sample["replay"] = pv.Replay
					if kf, ok := knownForPair("C03", pn, qn); ok {
						c.KnownLines = append(c.KnownLines, fmt.Sprintf("KNOWN-FINDING: property=C03 %s [%s] pair=%s/%s replay=%s", kf.What, kf.ID, pn, qn, pv.Replay))
					} else {
						c.Violations = append(c.Violations, fmt.Sprintf("VIOLATION property=C03 replay=%s", pv.Replay))
					}
				case "undecided":
					c.incon(fmt.Sprintf("pair %s/%s has equal fingerprints but equivalence is undecided: %s", pn, qn, pv.Why))
				}
				if len(c.Samples) < 12 || pv.Verdict != "equivalent" {
					c.Samples = append(c.Samples, sample)
				}
			}
		}
		c.Extra["pairs_by_kind"] = kinds
		c.Extra["pairs_separated_by_fingerprint"] = separated
		c.Extra["pairs_with_equal_fingerprint_decided_by_solver"] = collisions
		c.Extra["exhaustive_over_catalogue"] = true
		c.Assumptions = append(c.Assumptions, modeSAssumptions...)
	}
}

var modeSAssumptions = []string{
	"programs: the fixed catalogue in engine/subject_catalogue.go (straight-line, branching, counted/nested/sibling loops, slices, strings, maps, structs, helpers, recursion, closures, methods, defer); outside it nothing is claimed",
	"inputs: unconstrained 64-bit ints / full int8,uint8 / bools; slices and strings of length <= 3 with arbitrary contents; an input stream of 4 arbitrary ints for get()",
	"loops: each branch may take at most Unwind symbolic decisions per activation (8 by default, 300 for 8-bit counters); longer executions are cut by assumption and counted (cut_paths_by_unwind_assumption)",
	"an outcome is (panic class or normal return, result tuple, sequence of use() arguments, final contents of slice arguments)",
	"the tool side (fingerprints, diff status) is the real code run natively on the same source text",
}

func saveJSON(path string, v interface{}) {
	b, _ := json.MarshalIndent(v, "", " ")
	os.WriteFile(path, b, 0644)
}

var _ = cli.ComputeDiff
var _ ssa.Value

// ---------------------------------------------------------------- C02

type C02Replay struct {
	Property string `json:"property"`
	Mode     string `json:"mode"`
	P        string `json:"p"`
	Q        string `json:"q"`
	Kind     string `json:"kind"`
	Policy   string `json:"policy"`
	Note     string `json:"note"`
}

func init() {
	checks["C02"] = func(c *CheckCtx) {
		c.Level = "translation_validation"
		items := selectItems(catalogue(), c.Tier)
		w, err := buildSubjWorld(filepath.Join(c.WorkDir, "subj"), items, true)
		if err != nil {
			c.incon(err.Error())
			return
		}
		kinds := map[string]int{}
		notRefactor := 0
		for i := range items {
			it := &items[i]
			for j := range it.Vars {
				v := &it.Vars[j]
				isRef := strings.HasPrefix(v.Kind, "refactor:")
				isLit := literalOnly(v.Kind)
				if !isRef && !isLit {
					continue
				}
				c.Programs++
				kinds[v.Kind]++
				pn, qn := pName(it), qName(it, v)
				if w.FpKeep[pn] == "" || w.FpKeep[qn] == "" {
					c.incon("tool produced no fingerprint for " + pn + "/" + qn)
					continue
				}
				eqKeep := w.FpKeep[pn] == w.FpKeep[qn]
				eqDef := w.FpDef[pn] == w.FpDef[qn]
				report := func(policy, note string) {
					dir := filepath.Join(verifDir, "replays", c.ID)
					os.MkdirAll(dir, 0755)
					path := filepath.Join(dir, fmt.Sprintf("%s-%s-%s.json", pn, v.Tag, policy))
					saveJSON(path, C02Replay{Property: "C02", Mode: "fingerprint-pair", P: pn, Q: qn, Kind: v.Kind, Policy: policy, Note: note})
					c.Replays++
					c.Reproduced++ // the fingerprints were computed by the real tool on the real source just now
					if kf, ok := knownForPair("C02", pn, qn); ok {
						c.KnownLines = append(c.KnownLines, fmt.Sprintf("KNOWN-FINDING: property=C02 %s [%s] pair=%s/%s replay=%s", kf.What, kf.ID, pn, qn, path))
					} else {
						c.Violations = append(c.Violations, fmt.Sprintf("VIOLATION property=C02 replay=%s", path))
					}
					c.Samples = append(c.Samples, map[string]interface{}{"pair": pn + " vs " + qn, "kind": v.Kind, "policy": policy, "finding": note, "replay": path})
				}
				if isLit {
					// documented abstraction rule of the default policy: string literals, integer literals outside [-16,16]
					c.Disagree++
					if !eqDef {
						report("default", "literal replacement documented as abstracted changes the default-policy fingerprint")
					}
					if len(c.Samples) < 6 {
						c.Samples = append(c.Samples, map[string]interface{}{"pair": pn + " vs " + qn, "kind": v.Kind, "default_policy_fingerprints_equal": eqDef})
					}
					continue
				}
				// the solver first proves that the catalogue's refactoring really is behaviour-preserving
				// (within the bound); only then is the tool required to keep the fingerprint
				c.Disagree++
				pv := w.decidePair(c, it, v)
				if eqKeep && eqDef {
					if len(c.Samples) < 8 {
						c.Samples = append(c.Samples, map[string]interface{}{"pair": pn + " vs " + qn, "kind": v.Kind, "fingerprints_equal": true, "solver_verdict": pv.Verdict})
					}
					switch pv.Verdict {
					case "differ":
						notRefactor++ // equal fingerprints of differing functions: reported by the C03 check
					case "undecided":
						c.incon(fmt.Sprintf("refactoring pair %s/%s: equivalence undecided: %s", pn, qn, pv.Why))
					}
					continue
				}
				switch pv.Verdict {
				case "equivalent":
					pol := "keep-all-literals"
					if eqKeep {
						pol = "default"
					}
					report(pol, "solver proved the refactoring behaviour-preserving within the bound, yet the fingerprint changes")
				case "differ":
					notRefactor++
					c.Samples = append(c.Samples, map[string]interface{}{"pair": pn + " vs " + qn, "kind": v.Kind, "note": "catalogue entry is not behaviour-preserving (solver witness); not a C02 obligation", "replay": pv.Replay})
				default:
					c.incon(fmt.Sprintf("refactoring pair %s/%s has different fingerprints and its equivalence is undecided: %s", pn, qn, pv.Why))
				}
			}
		}
		c.Extra["refactoring_pairs_by_kind"] = kinds
		c.Extra["catalogue_entries_shown_not_behaviour_preserving"] = notRefactor
		c.Extra["exhaustive_over_catalogue"] = true
		c.Assumptions = append(c.Assumptions, modeSAssumptions...)
		c.Assumptions = append(c.Assumptions, "documented literal abstraction (default policy): string literals and integer literals outside [-16,16] are replaced by placeholders; such pairs are admitted by that rule, not by equivalence")
	}
}

// ---------------------------------------------------------------- C04

func writeSubjFile(dir string, body string) (string, error) {
	os.MkdirAll(dir, 0755)
	if err := os.WriteFile(filepath.Join(dir, "go.mod"), []byte("module subj\n\ngo 1.23\n"), 0644); err != nil {
		return "", err
	}
	path := filepath.Join(dir, "subj.go")
	return path, os.WriteFile(path, []byte(body), 0644)
}

func init() {
	checks["C04"] = func(c *CheckCtx) {
		c.Level = "translation_validation"
		items := selectItems(catalogue(), c.Tier)
		w, err := buildSubjWorld(filepath.Join(c.WorkDir, "subj"), items, true)
		if err != nil {
			c.incon(err.Error())
			return
		}
		var oldSrc strings.Builder
		oldSrc.WriteString(subjHelpers + "\n")
		maxVars := 0
		for i := range items {
			it := &items[i]
			oldSrc.WriteString(emitFunc(pName(it), it.Par, it.Ret, it.Pre, it.Body))
			if len(it.Vars) > maxVars {
				maxVars = len(it.Vars)
			}
		}
		oldPath, err := writeSubjFile(filepath.Join(c.WorkDir, "old"), oldSrc.String())
		if err != nil {
			c.incon(err.Error())
			return
		}
		preservedWrong, copies, changed := 0, 0, 0
		for r := 0; r < maxVars; r++ {
			var newSrc strings.Builder
			newSrc.WriteString(subjHelpers + "\n")
			chosen := map[string]*SVar{}
			for i := range items {
				it := &items[i]
				if r < len(it.Vars) && !strings.HasPrefix(it.Vars[r].Kind, "refactor:rename-func") {
					v := &it.Vars[r]
					par := it.Par
					if v.Par != nil {
						par = v.Par
					}
					// the new version keeps the old function's name; helper declarations follow the variant
					vpre := v.Pre
					if vpre == "" {
						vpre = it.Pre // the variant uses the original's helper declarations
					}
					pre := strings.ReplaceAll(strings.ReplaceAll(vpre, "PFN", pName(it)), "FN", pName(it))
					body := strings.ReplaceAll(strings.ReplaceAll(strings.ReplaceAll(v.Body, "PFN", pName(it)), "SELF", pName(it)), "FN", pName(it))
					newSrc.WriteString(emitFunc(pName(it), par, it.Ret, pre, body))
					chosen[pName(it)] = v
				} else {
					newSrc.WriteString(emitFunc(pName(it), it.Par, it.Ret, it.Pre, it.Body))
				}
			}
			newPath, err := writeSubjFile(filepath.Join(c.WorkDir, fmt.Sprintf("new%d", r)), newSrc.String())
			if err != nil {
				c.incon(err.Error())
				return
			}
			out, err := cli.ComputeDiff(cli.RealFileSystem{}, oldPath, newPath)
			if err != nil {
				c.incon("ComputeDiff failed: " + err.Error())
				continue
			}
			byName := map[string]*SItem{}
			for i := range items {
				byName[pName(&items[i])] = &items[i]
			}
			for _, fd := range out.Functions {
				it, ok := byName[fd.Function]
				if !ok {
					continue
				}
				c.Programs++
				v := chosen[fd.Function]
				if v == nil {
					// identical source compiled twice: must be preserved with nothing added or removed
					copies++
					if fd.Status != "preserved" || len(fd.AddedOps) > 0 || len(fd.RemovedOps) > 0 {
						dir := filepath.Join(verifDir, "replays", c.ID)
						os.MkdirAll(dir, 0755)
						path := filepath.Join(dir, fmt.Sprintf("copy-%s-r%d.json", fd.Function, r))
						saveJSON(path, map[string]interface{}{"property": "C04", "mode": "identical-copy", "function": fd.Function, "status": fd.Status, "added": fd.AddedOps, "removed": fd.RemovedOps})
						c.Violations = append(c.Violations, fmt.Sprintf("VIOLATION property=C04 replay=%s", path))
					}
					continue
				}
				changed++
				if fd.Status != "preserved" {
					continue
				}
				if literalOnly(v.Kind) {
					continue // diff runs under the default policy; documented-abstracted literals are outside the claim
				}
				c.Disagree++
				pv := w.decidePair(c, it, v)
				pn, qn := pName(it), qName(it, v)
				sample := map[string]interface{}{"pair": pn + " (old) vs " + qn + " (new)", "kind": v.Kind, "diff_status": fd.Status, "fingerprint_match": fd.FingerprintMatch, "solver_verdict": pv.Verdict}
				switch pv.Verdict {
				case "differ":
					preservedWrong++
					sample["replay"] = pv.Replay
					if kf, ok := knownForPair("C04", pn, qn); ok {
						c.KnownLines = append(c.KnownLines, fmt.Sprintf("KNOWN-FINDING: property=C04 %s [%s] pair=%s/%s replay=%s", kf.What, kf.ID, pn, qn, pv.Replay))
					} else {
						c.Violations = append(c.Violations, fmt.Sprintf("VIOLATION property=C04 replay=%s", pv.Replay))
					}
				case "undecided":
					c.incon(fmt.Sprintf("%s reported preserved for %s but equivalence is undecided: %s", fd.Function, qn, pv.Why))
				}
				if len(c.Samples) < 10 || pv.Verdict != "equivalent" {
					c.Samples = append(c.Samples, sample)
				}
			}
		}
		c.Extra["identical_copies_checked"] = copies
		c.Extra["edited_functions_diffed"] = changed
		c.Extra["preserved_but_behaviour_differs"] = preservedWrong
		c.Extra["exhaustive_over_catalogue"] = true
		c.Assumptions = append(c.Assumptions, modeSAssumptions...)
		c.Assumptions = append(c.Assumptions, "cli.ComputeDiff runs under the default literal policy: edits that only change a documented-abstracted literal are outside the claim; functions beyond the 5000-block size guard are not in the catalogue (stated gap)")
	}
}

// ---------------------------------------------------------------- C12

// loopCatalogue: counted loops in every form the property names. Each body starts with use(i),
// so the trace records the induction variable at every body execution (native replay compares it).
func loopCatalogue(tier string) []SItem {
	var items []SItem
	n := 0
	add := func(par, body string, unwind int) {
		items = append(items, SItem{ID: fmt.Sprintf("K%03d", n), Group: "K", Par: P(par), Body: body, Unwind: unwind})
		n++
	}
	types := []string{"int"}
	if tier == "thorough" {
		types = []string{"int", "int8", "uint8"}
	}
	neg := map[string]string{"<": ">=", "<=": ">", ">": "<=", ">=": "<", "!=": "=="}
	flip := map[string]string{"<": ">", "<=": ">=", ">": "<", ">=": "<=", "!=": "!="}
	for _, ty := range types {
		unwind := 10
		if ty != "int" {
			unwind = 300
		}
		cast := func(c string) string {
			if ty == "int" {
				return c
			}
			return ty + "(" + c + ")"
		}
		type form struct {
			op   string
			step string
		}
		ups := []form{{"<", "1"}, {"<", "2"}, {"<=", "1"}, {"<=", "3"}, {"!=", "1"}}
		downs := []form{{">", "1"}, {">", "2"}, {">=", "1"}, {">=", "3"}, {"!=", "1"}}
		if tier == "thorough" {
			ups = append(ups, form{"<", "3"}, form{"<", "5"}, form{"<=", "2"}, form{"<=", "5"}, form{"!=", "2"})
			downs = append(downs, form{">", "3"}, form{">", "5"}, form{">=", "2"}, form{">=", "5"}, form{"!=", "2"})
		}
		for dir, forms := range [][]form{ups, downs} {
			for _, f := range forms {
				if ty == "uint8" && dir == 1 && f.op == ">=" {
					// i >= 0 never fails for unsigned: only the parameter bound makes sense
				}
				upd := "i += " + f.step
				if dir == 1 {
					upd = "i -= " + f.step
				}
				for _, bound := range []string{"n", cast("7")} {
					par := "n " + ty
					start := cast("0")
					if dir == 1 {
						// counting down from the parameter (or a constant) to a bound
						start = "n"
						if bound == "n" {
							bound = cast("0")
						} else {
							bound = cast("2")
						}
					}
					if f.op == "!=" && f.step == "2" {
						// i != bound with stride 2 does not terminate (before wrapping) for half of the bounds: the
						// runs exhausted the step budget and said nothing. The three IDs stay reserved so that the
						// numbering (and with it the known-finding list) does not shift.
						n += 3
						continue
					}
					// condition form
					add(par, fmt.Sprintf("for i := %s; i %s %s; %s {\n\t\tuse(int(i))\n\t}", start, f.op, bound, upd), unwind)
					// exit test written the other way round: break on the negated comparison
					add(par, fmt.Sprintf("for i := %s; ; %s {\n\t\tif i %s %s {\n\t\t\tbreak\n\t\t}\n\t\tuse(int(i))\n\t}", start, upd, neg[f.op], bound), unwind)
					// limit on the left-hand side
					add(par, fmt.Sprintf("for i := %s; %s %s i; %s {\n\t\tuse(int(i))\n\t}", start, bound, flip[f.op], upd), unwind)
				}
			}
		}
		// start from a second parameter
		add("s "+ty+", n "+ty, "for i := s; i < n; i++ {\n\t\tuse(int(i))\n\t}", unwind)
		add("s "+ty+", n "+ty, "for i := s; i > n; i-- {\n\t\tuse(int(i))\n\t}", unwind)
		// continue / early exits / conditional update
		add("n "+ty, "for i := "+cast("0")+"; i < n; i++ {\n\t\tuse(int(i))\n\t\tif i%2 == 0 {\n\t\t\tcontinue\n\t\t}\n\t\tuse(-1)\n\t}", unwind)
		add("n "+ty+", k "+ty, "for i := "+cast("0")+"; i < n; i++ {\n\t\tuse(int(i))\n\t\tif i == k {\n\t\t\tbreak\n\t\t}\n\t}", unwind)
		add("n "+ty+", k "+ty, "for i := "+cast("0")+"; i < n; i++ {\n\t\tuse(int(i))\n\t\tif i == k {\n\t\t\treturn\n\t\t}\n\t}", unwind)
		add("n "+ty, "for i := "+cast("0")+"; i < n; i++ {\n\t\tuse(int(i))\n\t\tif i%3 == 1 {\n\t\t\ti++\n\t\t}\n\t}", unwind)
		// bottom-tested
		add("n "+ty, "i := "+cast("0")+"\n\tfor {\n\t\tuse(int(i))\n\t\ti++\n\t\tif i >= n {\n\t\t\tbreak\n\t\t}\n\t}", unwind)
		// nested and sibling
		add("n "+ty+", m "+ty, "for i := "+cast("0")+"; i < n; i++ {\n\t\tfor j := "+cast("0")+"; j < m; j++ {\n\t\t\tuse(int(i)*100 + int(j))\n\t\t}\n\t}", 6)
		add("n "+ty+", m "+ty, "for i := "+cast("0")+"; i < n; i++ {\n\t\tfor j := i; j < m; j++ {\n\t\t\tuse(int(i)*100 + int(j))\n\t\t}\n\t}", 6)
		if ty != "int" {
			n++ // two 8-bit loops in sequence, each unrolled through a wrap-around: the product of their trip counts exhausted the path budget; ID reserved
		} else {
			add("n "+ty+", m "+ty, "for i := "+cast("0")+"; i < n; i++ {\n\t\tuse(int(i))\n\t}\n\tfor j := m; j > "+cast("0")+"; j-- {\n\t\tuse(int(j))\n\t}", unwind)
		}
	}
	return items
}

func emitRunDriver(fn string, par []SParam) string {
	var sb strings.Builder
	sb.WriteString(fmt.Sprintf("func VerifRun_%s() {\n", fn))
	var args []string
	for i, p := range par {
		pn := fn
		if k := strings.IndexByte(fn, '_'); k > 0 {
			pn = fn[:k]
		}
		sb.WriteString(fmt.Sprintf("\tx%d := %s\n", i, vxForType(strings.ReplaceAll(strings.ReplaceAll(p.T, "PFN", pn), "FN", pn))))
		args = append(args, fmt.Sprintf("x%d", i))
	}
	sb.WriteString("\tvar in [4]int\n\tfor i := range in {\n\t\tin[i] = vxInt()\n\t}\n\tvxResetSubj(in)\n")
	sb.WriteString(fmt.Sprintf("\tc := vxCatch(func() { %s(%s) })\n", fn, strings.Join(args, ", ")))
	sb.WriteString("\tvxReportInts(\"trace\", vxTraceCopy())\n\tvxReportInts(\"code\", []int{c})\n\tvxCover(\"returns\", c == 0)\n}\n\n")
	return sb.String()
}

type C12Replay struct {
	ReplayFile
	Function string   `json:"function"`
	Source   string   `json:"source"`
	Trip     string   `json:"trip_count_tree"`
	IVs      []string `json:"induction_variables"`
}

func init() {
	checks["C12"] = func(c *CheckCtx) {
		c.Level = "translation_validation"
		items := loopCatalogue(c.Tier)
		// loops of the general catalogue too (quick: the loop group only)
		for _, it := range catalogue() {
			if it.Group == "L" {
				items = append(items, it)
			}
		}
		dir := filepath.Join(c.WorkDir, "subj")
		w, err := buildSubjWorld(dir, items, true)
		if err != nil {
			c.incon(err.Error())
			return
		}
		// run drivers for every function with a loop
		var drv strings.Builder
		drv.WriteString("//go:build verif_harness\n\npackage subj\n\n")
		type target struct {
			name string
			par  []SParam
			uw   int
		}
		var targets []target
		for i := range items {
			it := &items[i]
			targets = append(targets, target{pName(it), it.Par, it.Unwind})
			for j := range it.Vars {
				v := &it.Vars[j]
				par := it.Par
				if v.Par != nil {
					par = v.Par
				}
				targets = append(targets, target{qName(it, v), par, it.Unwind})
			}
		}
		for _, t := range targets {
			drv.WriteString(emitRunDriver(t.name, t.par))
		}
		os.WriteFile(filepath.Join(dir, "zz_run_drivers.go"), []byte(drv.String()), 0644)
		if err := w.loadEngine(); err != nil {
			c.incon("engine cannot load subject package: " + err.Error())
			return
		}
		withIV, withTrip, nLoops := 0, 0, 0
		for _, t := range targets {
			fn := w.in.ssaPkgs["subj"].Func(t.name)
			if fn == nil {
				continue
			}
			fl := loopsOf(fn)
			if fl == nil {
				continue
			}
			c.Programs++
			nLoops += len(fl.all)
			uw := t.uw
			if uw == 0 {
				uw = 10
			}
			name := "VerifRun_" + t.name
			cfg := &HarnessCfg{Name: name, Pkg: "subj", Solver: "z3", TimeoutMs: 60000, Unwind: uw, UnwindCut: true, MaxPaths: 5000, LoopCheck: true}
			res := runHarness(w.in, cfg, gWorkers)
			c.Results = append(c.Results, res)
			for _, m := range res.Inconclusive {
				if !strings.Contains(m, "cover never satisfied") {
					c.incon(t.name + ": " + m)
				}
			}
			if res.CoverSeen["loopfact:iv:"+t.name] {
				withIV++
			}
			if res.CoverSeen["loopfact:trip:"+t.name] {
				withTrip++
			}
			var trip string
			var ivs []string
			for _, l := range fl.all {
				if l.TripCount != nil {
					trip += loopLabel(l) + "=" + l.TripCount.String() + " "
				}
				for _, iv := range l.Inductions {
					ivs = append(ivs, fmt.Sprintf("%s: {%s,+,%s}", loopLabel(l), iv.Start.String(), iv.Step.String()))
				}
			}
			sort.Strings(ivs)
			c.Disagree += len(res.AssertsReached)
			seen := map[string]bool{}
			for _, viol := range res.Violations {
				if seen[viol.Label] {
					continue
				}
				seen[viol.Label] = true
				// replay: (1) native run of the subject records the real trace; (2) the engine re-runs the
				// same vector concretely (real SCEV trees, concrete values); the traces must agree and the
				// concrete run must violate the same fact.
				rf := &C12Replay{ReplayFile: ReplayFile{Property: "C12", Harness: name, Label: viol.Label, Vec: viol.Vec, Tags: viol.Tags}, Function: t.name, Trip: trip, IVs: ivs}
				dirR := filepath.Join(verifDir, "replays", c.ID)
				os.MkdirAll(dirR, 0755)
				path := filepath.Join(dirR, fmt.Sprintf("%s-%d.json", name, len(c.Violations)+len(c.KnownLines)+1))
				saveJSON(path, rf)
				c.Replays++
				ok, why := replayC12(w, name, uw, viol, path)
				sample := map[string]interface{}{"function": t.name, "violated": viol.Label, "trip_count": trip, "ivs": ivs, "replay": path}
				if !ok {
					c.incon(fmt.Sprintf("%s: counterexample for %s did not reproduce (%s)", t.name, viol.Label, why))
					continue
				}
				c.Reproduced++
				c.Samples = append(c.Samples, sample)
				if kf, okk := knownForPair("C12", t.name, strings.SplitN(viol.Label, ":", 2)[0]); okk {
					c.KnownLines = append(c.KnownLines, fmt.Sprintf("KNOWN-FINDING: property=C12 %s [%s] function=%s replay=%s", kf.What, kf.ID, t.name, path))
				} else {
					c.Violations = append(c.Violations, fmt.Sprintf("VIOLATION property=C12 replay=%s", path))
				}
			}
			if len(c.Samples) < 8 {
				c.Samples = append(c.Samples, map[string]interface{}{"function": t.name, "trip_count": trip, "ivs": ivs, "facts_checked": res.AssertsReached})
			}
		}
		c.Extra["loops_analysed"] = nLoops
		c.Extra["functions_with_induction_variable_facts_checked"] = withIV
		c.Extra["functions_with_trip_count_facts_checked"] = withTrip
		c.Extra["exhaustive_over_catalogue"] = true
		c.Assumptions = append(c.Assumptions, modeSAssumptions...)
		c.Assumptions = append(c.Assumptions,
			"loop.DetectLoops/AnalyzeSCEV are the real code, run natively on the same ssa.Function objects the engine executes",
			"'the loop body executes' is counted as the number of times the single exiting test decides to stay in the loop; trip-count trees are evaluated with unbounded-integer semantics in 200-bit vectors",
			"quick: 64-bit int loops with at most 10 symbolic header evaluations per activation; thorough adds int8/uint8 loops with up to 300 (full wrap-around)")
	}
}

// replayC12 confirms a counterexample: native trace == engine's concrete trace, and the concrete
// engine run (real SCEV result, concrete values) violates the same fact.
func replayC12(w *SubjWorld, harness string, unwind int, viol Violation, path string) (bool, string) {
	_, st, out := nativeReplaySubj(w.Dir, []string{harness}, path)
	if st != "ok" {
		return false, "native run: " + st
	}
	var nativeTrace string
	for _, line := range strings.Split(out, "\n") {
		if i := strings.Index(line, "VXREPORT trace "); i >= 0 {
			nativeTrace = strings.TrimSpace(line[i+15:])
		}
	}
	cfg := &HarnessCfg{Name: harness, Pkg: "subj", Solver: "z3", TimeoutMs: 10000, Unwind: 1 << 20, LoopCheck: true, Concrete: viol.Vec, MaxSteps: 2000000}
	res := runHarness(w.in, cfg, 1)
	engTrace := fmt.Sprint(res.Reports["trace"])
	if res.Reports["trace"] == nil {
		engTrace = "[]"
	}
	if engTrace != nativeTrace {
		return false, fmt.Sprintf("engine trace %s != native trace %s (concrete run ends=%v incon=%v)", truncate(engTrace, 80), truncate(nativeTrace, 80), res.Ends, res.Inconclusive)
	}
	for _, v := range res.Violations {
		if v.Label == viol.Label {
			return true, ""
		}
	}
	return false, "concrete re-execution does not violate " + viol.Label
}
