package main

import (
	"fmt"
	"go/types"

	"golang.org/x/tools/go/ssa"
)

const cliPkg = repoMod + "/internal/cli"

func registerCLIModels(in *Interp) {
	vxExtra["vxHasSuffix"] = func(in *Interp, p *Path, fr *Frame, a []Val, s ssa.CallInstruction) Val {
		return p.strHasSuffix(a[0].(StringVal), a[1].(StringVal))
	}
	vxExtra["vxNameBytes"] = func(in *Interp, p *Path, fr *Frame, a []Val, s ssa.CallInstruction) Val {
		x := a[0].(StringVal)
		r := byteClass(p, x, func(b *Term) *Term {
			return p.orN(inRange(p, b, 'a', 'z'), inRange(p, b, 'A', 'Z'), p.bvCmp("=", b, mkBV(8, '.')), p.bvCmp("=", b, mkBV(8, '_')))
		})
		return p.and(r, p.not(p.bvCmp("=", x.n, mkInt(0))))
	}
	in.intr["golang.org/x/sync/errgroup.WithContext"] = func(in *Interp, p *Path, fr *Frame, a []Val, s ssa.CallInstruction) Val {
		rt := s.Common().StaticCallee().Signature.Results().At(0).Type()
		return TupleVal{&Pointer{obj: &Obj{val: zero(derefType(rt))}}, a[0]}
	}
	in.intr["(*golang.org/x/sync/errgroup.Group).SetLimit"] = noop
	// Workers are queued by Go and run, each to completion, when Wait is called. By default in
	// submission order; with the harness parameter "schedsym" the order is a free choice explored
	// exhaustively (block-granularity schedules of the worker goroutines).
	in.intr["(*golang.org/x/sync/errgroup.Group).Go"] = func(in *Interp, p *Path, fr *Frame, a []Val, s ssa.CallInstruction) Val {
		q, _ := p.stubs["errgroup.queue"].([]FuncVal)
		p.stubs["errgroup.queue"] = append(q, a[1].(FuncVal))
		return nil
	}
	in.intr["(*golang.org/x/sync/errgroup.Group).Wait"] = func(in *Interp, p *Path, fr *Frame, a []Val, s ssa.CallInstruction) Val {
		q, _ := p.stubs["errgroup.queue"].([]FuncVal)
		delete(p.stubs, "errgroup.queue")
		var first Val
		for len(q) > 0 {
			k := 0
			if len(q) > 1 && p.ex.cfg.Params["schedsym"] == 1 {
				k = p.vxPickFree(len(q), "sched:worker")
			}
			w := q[k]
			q = append(append([]FuncVal(nil), q[:k]...), q[k+1:]...)
			r := in.callFunction(p, fr, w, nil, s)
			if iv, ok := r.(IfaceVal); ok && iv.t != nil && first == nil {
				first = iv
			}
		}
		if first != nil {
			return first
		}
		return IfaceVal{}
	}
	in.intr["encoding/json.NewEncoder"] = func(in *Interp, p *Path, fr *Frame, a []Val, s ssa.CallInstruction) Val {
		return &Pointer{model: &OpaqueVal{name: "json.Encoder"}}
	}
	in.intr["(*encoding/json.Encoder).SetIndent"] = noop
	in.intr["(*encoding/json.Encoder).Encode"] = retNilErr
	in.intr["runtime.GOMAXPROCS"] = func(in *Interp, p *Path, fr *Frame, a []Val, s ssa.CallInstruction) Val { return mkInt(4) }
	_ = types.Typ
}

func c16LoaderStubs() map[string]Intrinsic {
	return map[string]Intrinsic{
		repoMod + "/pkg/diff.FingerprintSourceAdvanced": func(in *Interp, p *Path, fr *Frame, a []Val, s ssa.CallInstruction) Val {
			// the loader either accepts the source or reports an error (decided by the file's content marker)
			src, ok := a[1].(StringVal).conc()
			if ok && src == "this is not go" {
				return TupleVal{SliceVal{n: mkInt(0)}, in.mkErr(concStr("packages contain errors"), nil, "loader")}
			}
			// three functions: two attributed to the file itself, one (as after a //line directive) elsewhere
			rt := s.Common().StaticCallee().Signature.Results().At(0).Type().Underlying().(*types.Slice).Elem()
			var rs []Val
			for k, fname := range []StringVal{a[0].(StringVal), a[0].(StringVal), concStr("grammar.y")} {
				r := zero(rt).(*StructVal)
				r.f[fieldIndex(rt, "FunctionName")] = concStr(fmt.Sprintf("p.F%d", k))
				r.f[fieldIndex(rt, "Fingerprint")] = concStr("fp")
				r.f[fieldIndex(rt, "Filename")] = fname
				r.f[fieldIndex(rt, "Line")] = mkInt(int64(10 + k))
				rs = append(rs, r)
			}
			return TupleVal{newSlice(rs), IfaceVal{}}
		},
	}
}

func init() {
	checks["C16"] = func(c *CheckCtx) {
		stubs := c16LoaderStubs()
		cfgs := []*HarnessCfg{
			{Name: "VerifC16_Collect", Pkg: cliPkg, Solver: "z3", MaxPaths: 400000},
			{Name: "VerifC16_FileErrors", Pkg: cliPkg, Solver: "z3", Stubs: stubs, MaxPaths: 400000, EngineReplay: true},
			{Name: "VerifC16_Strict", Pkg: cliPkg, Solver: "z3", Stubs: stubs, MaxPaths: 400000, EngineReplay: true},
		}
		c.Assumptions = append(c.Assumptions,
			"directory tree of fixed shape (root -> {dir -> {dir -> {file}, file}, file}) with symbolic names over [a-zA-Z._]: directory names of 1,2,6,7 bytes, file names of 3,4,9,10 bytes; WalkDir follows the documented contract (pre-order, SkipDir prunes) and is part of the harness",
			"file sizes are arbitrary non-negative 64-bit values; stat/read failures and unloadable sources are symbolic flags; the Go loader (diff.FingerprintSourceAdvanced) is a stub that rejects exactly the marked sources",
			"worker goroutines of ProcessFilesParallel are run to completion one after another (errgroup model); per-function coverage/attribution and the panic-recovery path are not claimed",
			"the loader stub and the completion order of workers cannot be forced natively: counterexamples of the file-error harnesses that do not reproduce natively are confirmed by concrete re-execution of the SSA")
		c.runModeT([]string{"internal/cli"}, cfgs)
	}
}
