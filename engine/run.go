package main

// Orchestration shared by all Mode T checks: run harnesses, replay counterexamples natively,
// print VIOLATION / KNOWN-FINDING lines.

import (
	"bytes"
	"encoding/json"
	"fmt"
	"os"
	"os/exec"
	"path/filepath"
	"regexp"
	"sort"
	"strings"
	"time"
)

var gKnownActive = map[string]KnownFinding{}

func initKnown() {
	for _, k := range loadKnown() {
		if k.Status == "known" {
			gKnownActive[k.ID] = k
		}
	}
}

type ReplayFile struct {
	Property string           `json:"property"`
	Pkg      string           `json:"pkg"`
	Harness  string           `json:"harness"`
	Label    string           `json:"label"`
	Known    string           `json:"known,omitempty"`
	Vec      []uint64         `json:"vec"`
	Tags     []string         `json:"tags,omitempty"`
	Params   map[string]int64 `json:"params,omitempty"`
	Note     string           `json:"note,omitempty"`
}

var reFuncVerif = regexp.MustCompile(`(?m)^func (Verif[A-Za-z0-9_]*)\(\)`)

func harnessNames(pkgRel string) []string {
	dir := filepath.Join(verifDir, "harness", pkgRel)
	ents, _ := os.ReadDir(dir)
	var out []string
	for _, e := range ents {
		if strings.HasSuffix(e.Name(), ".go") && !strings.HasSuffix(e.Name(), "_test.go") {
			b, _ := os.ReadFile(filepath.Join(dir, e.Name()))
			for _, m := range reFuncVerif.FindAllStringSubmatch(string(b), -1) {
				out = append(out, m[1])
			}
		}
	}
	sort.Strings(out)
	return out
}

func goEnv() []string {
	env := []string{}
	for _, e := range os.Environ() {
		if strings.HasPrefix(e, "GOFLAGS=") || strings.HasPrefix(e, "GOPROXY=") {
			continue
		}
		env = append(env, e)
	}
	return append(env, "GOFLAGS=-mod=mod", "GOPROXY=off")
}

// nativeReplay runs one stored vector against the native build of the harness in its package.
// Returns the label the native run violated ("" if none) and a status string.
func nativeReplay(workDir, pkgRel string, rf *ReplayFile, replayPath string) (string, string, string) {
	ov, err := harnessOverlay([]string{pkgRel}, workDir)
	if err != nil {
		return "", "setup-error", err.Error()
	}
	pkgName := ""
	for virt, real := range ov {
		if strings.HasSuffix(virt, "zz_verif_rt.go") {
			b, _ := os.ReadFile(real)
			for _, line := range strings.Split(string(b), "\n") {
				if strings.HasPrefix(line, "package ") {
					pkgName = strings.TrimSpace(strings.TrimPrefix(line, "package "))
				}
			}
		}
	}
	var sb strings.Builder
	sb.WriteString("//go:build " + harnessTag + "\n\npackage " + pkgName + "\n\nimport \"testing\"\n\nfunc TestVerifReplay(t *testing.T) {\n\tvxReplayMain(map[string]func(){\n")
	for _, n := range harnessNames(pkgRel) {
		sb.WriteString(fmt.Sprintf("\t\t%q: %s,\n", n, n))
	}
	sb.WriteString("\t})\n}\n")
	testPath := filepath.Join(workDir, strings.ReplaceAll(pkgRel, "/", "_")+"_replay_test.go")
	os.WriteFile(testPath, []byte(sb.String()), 0644)
	ov[filepath.Join(repoDir, pkgRel, "zz_verif_replay_test.go")] = testPath
	ovJSON, _ := json.Marshal(map[string]interface{}{"Replace": ov})
	ovPath := filepath.Join(workDir, "overlay.json")
	os.WriteFile(ovPath, ovJSON, 0644)
	cmd := exec.Command("go", "test", "-tags", harnessTag, "-vet=off", "-count=1", "-v", "-overlay", ovPath, "-run", "^TestVerifReplay$", "./"+pkgRel)
	cmd.Dir = repoDir
	cmd.Env = append(goEnv(), "VERIF_REPLAY="+replayPath)
	var out bytes.Buffer
	cmd.Stdout = &out
	cmd.Stderr = &out
	done := make(chan error, 1)
	cmd.Start()
	go func() { done <- cmd.Wait() }()
	select {
	case <-done:
	case <-time.After(10 * time.Minute):
		cmd.Process.Kill()
		return "", "timeout", ""
	}
	o := out.String()
	for _, line := range strings.Split(o, "\n") {
		if i := strings.Index(line, "VXRESULT "); i >= 0 {
			f := strings.TrimSpace(line[i+9:])
			if strings.HasPrefix(f, "violated=") {
				return strings.TrimPrefix(f, "violated="), "violated", o
			}
			return "", f, o
		}
	}
	return "", "no-result", o
}

var replaySeq int

func (c *CheckCtx) saveReplay(rf *ReplayFile, n int) string {
	dir := filepath.Join(verifDir, "replays", c.ID)
	os.MkdirAll(dir, 0755)
	replaySeq++
	path := filepath.Join(dir, fmt.Sprintf("%s-%d.json", rf.Harness, replaySeq))
	b, _ := json.MarshalIndent(rf, "", " ")
	os.WriteFile(path, b, 0644)
	return path
}

// runModeT loads the packages, runs the harness configs, replays and classifies counterexamples.
func (c *CheckCtx) runModeT(pkgRels []string, cfgs []*HarnessCfg) {
	initKnown()
	in, err := loadInterp(pkgRels, nil, nil, c.WorkDir)
	if err != nil {
		c.incon("cannot load harness packages: " + err.Error())
		return
	}
	for _, cfg := range cfgs {
		if h := os.Getenv("VERIF_HARNESS"); h != "" && h != cfg.Name {
			continue // debugging aid: run a single harness of the check
		}
		if sel := os.Getenv("VERIF_PARAMSEL"); sel != "" { // debugging aid: "name=value" selects configurations
			kv := strings.SplitN(sel, "=", 2)
			if len(kv) == 2 && fmt.Sprint(cfg.Params[kv[0]]) != kv[1] {
				continue
			}
		}
		if cfg.Validate == 0 && cfg.NoValidate == "" && !cfg.EngineReplay && (c.Tier == "thorough" || os.Getenv("VERIF_VALIDATE") != "") {
			cfg.Validate = 1 // thorough tier: one witness per cover label is re-run on the native build
		}
		if cfg.Validate > 0 {
			cfg.KeepWitnesses = true
		}
		res := runHarness(in, cfg, gWorkers)
		c.Results = append(c.Results, res)
		for _, m := range res.Inconclusive {
			c.incon(cfg.Name + ": " + m)
		}
		if cfg.Validate > 0 && len(res.Violations) == 0 {
			// model validation: the solver's witness of every cover label is run on the native build of
			// the same harness (real file system / Pebble / HTTP server / decoder instead of the models);
			// the native run must be clean too, otherwise a model misrepresents the code's environment
			seen := map[string]int{}
			pr := strings.TrimPrefix(cfg.Pkg, repoMod+"/")
			for _, w := range res.Witnesses {
				if seen[w.Label] >= cfg.Validate || strings.HasPrefix(w.Label, "$") {
					continue
				}
				seen[w.Label]++
				rf := &ReplayFile{Property: c.ID, Pkg: pr, Harness: cfg.Name, Label: "witness:" + w.Label, Vec: w.Vec, Tags: w.Tags, Params: cfg.Params}
				path := filepath.Join(c.WorkDir, fmt.Sprintf("witness-%s-%d.json", cfg.Name, c.Validated))
				saveJSON(path, rf)
				_, st, _ := nativeReplay(c.WorkDir, pr, rf, path)
				if strings.HasPrefix(st, "unrealisable") {
					// the native harness cannot build this particular environment (e.g. a working directory
					// directly under /): not a disagreement, the witness is skipped
					c.addExtra("witnesses_not_realisable_natively", cfg.Name+":"+w.Label)
					continue
				}
				c.Validated++
				if st != "ok" {
					keep := c.saveReplay(rf, 900+c.Validated)
					c.incon(fmt.Sprintf("%s: witness of %q is clean in the model but the native run says %q (model infidelity?) replay=%s", cfg.Name, w.Label, st, keep))
				}
			}
		}
		for _, d := range res.CrossDiff {
			c.incon(cfg.Name + ": cross-solver disagreement " + d)
		}
		pkgRel := strings.TrimPrefix(cfg.Pkg, repoMod+"/")
		// distinct labels only: one replay per (label) for violations, per (known id) for known hits
		n := 0
		tries := map[string]int{}
		repro := map[string]bool{}
		lastFail := map[string]string{}
		// order candidates so that different scenario picks (first symbolic choice) are tried first
		cands := append([]Violation(nil), res.Violations...)
		{
			seenFirst := map[string]bool{}
			var first, later []Violation
			for _, v := range cands {
				k := v.Label
				if len(v.Vec) > 0 {
					k += fmt.Sprintf("/%d", v.Vec[0])
				}
				if !seenFirst[k] {
					seenFirst[k] = true
					first = append(first, v)
				} else {
					later = append(later, v)
				}
			}
			cands = append(first, later...)
		}
		for _, v := range cands {
			if repro[v.Label] || tries[v.Label] >= 9 {
				continue
			}
			tries[v.Label]++
			n++
			rf := &ReplayFile{Property: c.ID, Pkg: pkgRel, Harness: cfg.Name, Label: v.Label, Vec: v.Vec, Tags: v.Tags, Params: cfg.Params}
			path := c.saveReplay(rf, n)
			c.Replays++
			var lbl, st, out string
			if !cfg.EngineReplay {
				lbl, st, out = nativeReplay(c.WorkDir, pkgRel, rf, path)
			} else {
				st = "not attempted natively (schedule/crash/fault harness)"
			}
			if st != "violated" && cfg.EngineReplay {
				// schedules / crash points / injected faults cannot be forced on the native build without
				// instrumentation: confirm on the real code's SSA by concrete re-execution with the model
				ccfg := *cfg
				ccfg.Concrete = v.Vec
				ccfg.Cross = ""
				cres := runHarness(in, &ccfg, 1)
				if os.Getenv("VERIF_DEBUG") != "" {
					fmt.Fprintf(os.Stderr, "engine replay of %s: ends=%v violations=%d incon=%v\n", v.Label, cres.Ends, len(cres.Violations), cres.Inconclusive)
				}
				for _, cv := range cres.Violations {
					if cv.Label == v.Label {
						st, lbl = "violated", v.Label+" (confirmed by concrete re-execution of the SSA; native run: "+st+")"
						c.addExtra("engine_replays", v.Label)
						break
					}
				}
				if st != "violated" {
					// the concrete re-execution did not confirm it: last resort, the native build
					lbl, st, out = nativeReplay(c.WorkDir, pkgRel, rf, path)
				}
			}
			if st == "violated" {
				c.Reproduced++
				repro[v.Label] = true
				c.Violations = append(c.Violations, fmt.Sprintf("VIOLATION property=%s replay=%s", c.ID, path))
				c.Samples = append(c.Samples, map[string]interface{}{"violation": v.Label, "native_label": lbl, "harness": cfg.Name, "replay": path})
			} else {
				lastFail[v.Label] = fmt.Sprintf("(%s) replay=%s", st, path)
				if os.Getenv("VERIF_DEBUG") != "" {
					fmt.Fprintln(os.Stderr, out)
				}
			}
		}
		if cfg.FPUF && len(lastFail) > 0 {
			// counterexamples found with float arithmetic abstracted to uninterpreted functions can be
			// artefacts of the abstraction: look for one in the exact FloatingPoint theory instead
			ccfg := *cfg
			ccfg.FPUF = false
			ccfg.Cross = ""
			ccfg.Solver = "cvc5"
			ccfg.Portfolio = nil
			if ccfg.TimeoutMs == 0 || ccfg.TimeoutMs > 60000 {
				ccfg.TimeoutMs = 60000
			}
			xres := runHarness(in, &ccfg, gWorkers)
			xtries := map[string]int{}
			for _, v := range xres.Violations {
				if _, open := lastFail[v.Label]; !open || repro[v.Label] || xtries[v.Label] >= 6 {
					continue
				}
				xtries[v.Label]++
				n++
				rf := &ReplayFile{Property: c.ID, Pkg: pkgRel, Harness: cfg.Name, Label: v.Label, Vec: v.Vec, Tags: v.Tags, Params: cfg.Params}
				path := c.saveReplay(rf, n)
				c.Replays++
				lbl, st, _ := nativeReplay(c.WorkDir, pkgRel, rf, path)
				if st == "violated" {
					c.Reproduced++
					repro[v.Label] = true
					c.Violations = append(c.Violations, fmt.Sprintf("VIOLATION property=%s replay=%s", c.ID, path))
					c.Samples = append(c.Samples, map[string]interface{}{"violation": v.Label, "native_label": lbl, "harness": cfg.Name, "replay": path, "note": "counterexample from the exact FloatingPoint encoding after the abstract one did not reproduce"})
				}
			}
		}
		for l, f := range lastFail {
			if !repro[l] {
				c.incon(fmt.Sprintf("%s: %d counterexample(s) for %q did not reproduce natively %s - encoding mismatch or unrealisable stub answer", cfg.Name, tries[l], l, f))
			}
		}
		seenK := map[string]bool{}
		for _, v := range res.KnownHits {
			if seenK[v.Known] {
				continue
			}
			seenK[v.Known] = true
			n++
			rf := &ReplayFile{Property: c.ID, Pkg: pkgRel, Harness: cfg.Name, Label: v.Label, Known: v.Known, Vec: v.Vec, Tags: v.Tags, Params: cfg.Params}
			path := c.saveReplay(rf, n)
			c.Replays++
			_, st, _ := nativeReplay(c.WorkDir, pkgRel, rf, path)
			kf := gKnownActive[v.Known]
			if st == "violated" {
				c.Reproduced++
				c.KnownLines = append(c.KnownLines, fmt.Sprintf("KNOWN-FINDING: property=%s %s [%s] replay=%s", c.ID, kf.What, kf.ID, path))
			} else {
				c.incon(fmt.Sprintf("%s: known finding %s found symbolically but not reproduced natively (%s)", cfg.Name, v.Known, st))
			}
		}
		// samples: one obligation per assertion label
		labels := []string{}
		for l := range res.AssertsReached {
			labels = append(labels, l)
		}
		sort.Strings(labels)
		for i, l := range labels {
			if i < 6 {
				c.Samples = append(c.Samples, map[string]interface{}{"harness": cfg.Name, "obligation": l, "paths_reaching": res.AssertsReached[l], "paths_proved": res.AssertsProved[l], "params": cfg.Params})
			}
		}
	}
}

func (c *CheckCtx) addExtra(key, item string) {
	l, _ := c.Extra[key].([]string)
	c.Extra[key] = append(l, item)
}
