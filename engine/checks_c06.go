package main

import (
	"fmt"
	"os"
)

const pebPkg = repoMod + "/pkg/storage/pebbledb"

var pebbleAssumptions = []string{
	"Pebble is replaced by its contract model (engine/pebble.go): key/value table, atomic batches, snapshot isolation, ascending bytewise bounded iteration, synced commits durable, SingleDelete shadowing the key in the live view while an older overwritten value resurfaces after a restart; that real Pebble implements the contract is trusted (native replays run the same operations on a real in-memory Pebble)",
	"gob is an opaque encoding that round-trips its payload and never starts with '{'; topology/fuzzy hashes are injective names of the pool shapes; crypto/rand yields distinct fresh bytes; time is a constant",
}

func init() {
	checks["C06"] = func(c *CheckCtx) {
		pre := int64(1)
		if c.Tier == "thorough" {
			pre = 2
		}
		var cfgs []*HarnessCfg
		for lk := int64(0); lk < 6; lk++ {
			if lk == 3 {
				// candidate scan (ScanCandidates vs brute force incl. the packed entropy pre-filter) with two
				// fixed IDs: about 8 minutes per pool shape, thorough tier only (the quick tier checks what
				// the candidate and alert scans read in the index-entry family 5 instead)
				if c.Tier != "thorough" && os.Getenv("VERIF_ONLY") == "" {
					continue
				}
				// (one pool shape: the second one doubles the eight minutes without touching other code)
				cfgs = append(cfgs, &HarnessCfg{Name: "VerifC06_Step", Pkg: pebPkg, Solver: "z3", Params: map[string]int64{"pre": 1, "lookup": lk, "shape": 0, "fixedids": 1}, MaxPaths: 2000000})
				continue
			}
			pp := pre
			if lk == 2 || lk == 4 {
				// the entropy-range and statistics lookups multiply case splits: one pre-existing signature in
				// both tiers (statistics with two did not finish in 15 minutes; the index-entry family 5 covers
				// the two-signature states)
				pp = 1
			}
			cfgs = append(cfgs, &HarnessCfg{Name: "VerifC06_Step", Pkg: pebPkg, Solver: "z3", Params: map[string]int64{"pre": pp, "lookup": lk}, MaxPaths: 2000000})
		}
		if only := os.Getenv("VERIF_ONLY"); only != "" {
			var f []*HarnessCfg
			for _, cf := range cfgs {
				if fmt.Sprint(cf.Params["lookup"]) == only {
					f = append(f, cf)
				}
			}
			cfgs = f
		}
		c.Assumptions = append(c.Assumptions, pebbleAssumptions...)
		c.Assumptions = append(c.Assumptions,
			"states: every store reachable by adding up to 2 signatures (IDs: arbitrary printable strings of 1-2 bytes, so separators and prefix relations between IDs are covered; hashes from a pool of 2+2 shapes; entropy from a pool of six values incl. neighbours of 5.0; tolerance 0 or 0.5), followed by one arbitrary mutation from {add/update, batch add with repeated IDs, delete, false-positive mark, rebuild, none}",
			"lookups compared with brute force after the step: by ID, by topology hash, count, listing, entropy range [0.5,5], index statistics, the entries of the exact-hash and fuzzy indexes as the scans decode them (key, ID, packed entropy score and tolerance of the current version); thorough tier also the candidate scan itself for one pool shape (fixed IDs)",
			"more than 2 live signatures, hashes containing ':', and close/reopen cycles are outside this bound")
		c.runModeT([]string{"pkg/storage/pebbledb"}, cfgs)
	}
}
