package main

import (
	"fmt"
	"go/types"

	"golang.org/x/tools/go/ssa"
)

// Val is one of: *Term, *StructVal, *ArrayVal, *Pointer, SliceVal, StringVal, MapVal, IfaceVal,
// FuncVal, TupleVal, *OpaqueVal, *RangeIter, nil (untyped nil placeholder, normalised by zero()).
type Val interface{}

type StructVal struct{ f []Val }
type ArrayVal struct{ e []Val }

type Obj struct {
	val  Val
	name string
}

type Pointer struct {
	obj   *Obj
	path  []int
	model interface{} // engine-native model object (Pebble DB, batch, iterator, file, ...)
	fn    *FuncVal
}

func (p *Pointer) isNil() bool { return p == nil || (p.obj == nil && p.model == nil) }

type SliceVal struct {
	back *Obj // val is *ArrayVal
	off  int
	n    *Term // BV64
	cap  int
}

type StringVal struct {
	b []*Term // capacity = len(b); bytes beyond n are unconstrained garbage
	n *Term   // BV64
}

type MapObj struct {
	keys   []Val
	vals   []Val
	symOrd bool
}
type MapVal struct{ m *MapObj }

type IfaceVal struct {
	t types.Type // dynamic type; nil => nil interface
	v Val
}

type FuncVal struct {
	fn      *ssa.Function
	free    []Val
	builtin string
	native  Intrinsic
}

type TupleVal []Val

type OpaqueVal struct {
	name string
	id   int
}

type RangeIter struct {
	isStr bool
	str   StringVal
	m     *MapObj
	keys  []Val
	left  []int
	pos   int
}

func concStr(s string) StringVal {
	b := make([]*Term, len(s))
	for i := 0; i < len(s); i++ {
		b[i] = mkBV(8, uint64(s[i]))
	}
	return StringVal{b: b, n: mkInt(int64(len(s)))}
}

// isConc reports whether the string is fully concrete and returns it.
func (s StringVal) conc() (string, bool) {
	if !s.n.C {
		return "", false
	}
	n := int(s.n.U)
	if n > len(s.b) {
		return "", false
	}
	out := make([]byte, n)
	for i := 0; i < n; i++ {
		if !s.b[i].C {
			return "", false
		}
		out[i] = byte(s.b[i].U)
	}
	return string(out), true
}

func intWidth(t types.Type) (w int, signed bool, ok bool) {
	b, isB := t.Underlying().(*types.Basic)
	if !isB {
		return 0, false, false
	}
	switch b.Kind() {
	case types.Int, types.Int64, types.UntypedInt:
		return 64, true, true
	case types.Int32, types.UntypedRune:
		return 32, true, true
	case types.Int16:
		return 16, true, true
	case types.Int8:
		return 8, true, true
	case types.Uint, types.Uint64, types.Uintptr:
		return 64, false, true
	case types.Uint32:
		return 32, false, true
	case types.Uint16:
		return 16, false, true
	case types.Uint8:
		return 8, false, true
	}
	return 0, false, false
}

func isFloat(t types.Type) bool {
	b, ok := t.Underlying().(*types.Basic)
	return ok && b.Info()&types.IsFloat != 0
}
func isString(t types.Type) bool {
	b, ok := t.Underlying().(*types.Basic)
	return ok && b.Info()&types.IsString != 0
}
func isBoolT(t types.Type) bool {
	b, ok := t.Underlying().(*types.Basic)
	return ok && b.Info()&types.IsBoolean != 0
}

func zero(t types.Type) Val {
	switch u := t.Underlying().(type) {
	case *types.Basic:
		if w, _, ok := intWidth(u); ok {
			return mkBV(w, 0)
		}
		switch {
		case u.Info()&types.IsBoolean != 0:
			return termFalse
		case u.Info()&types.IsFloat != 0:
			return mkF64(0)
		case u.Info()&types.IsString != 0:
			return concStr("")
		case u.Kind() == types.UnsafePointer:
			return &Pointer{}
		case u.Kind() == types.UntypedNil:
			return nil
		}
		panic(pathEnd{"unsupported", "zero of basic type " + u.String()})
	case *types.Pointer:
		return &Pointer{}
	case *types.Slice:
		return SliceVal{n: mkInt(0)}
	case *types.Map:
		return MapVal{}
	case *types.Chan:
		return &Pointer{}
	case *types.Signature:
		return FuncVal{}
	case *types.Interface:
		return IfaceVal{}
	case *types.Struct:
		s := &StructVal{f: make([]Val, u.NumFields())}
		for i := range s.f {
			s.f[i] = zero(u.Field(i).Type())
		}
		return s
	case *types.Array:
		a := &ArrayVal{e: make([]Val, int(u.Len()))}
		for i := range a.e {
			a.e[i] = zero(u.Elem())
		}
		return a
	case *types.Tuple:
		tv := make(TupleVal, u.Len())
		for i := range tv {
			tv[i] = zero(u.At(i).Type())
		}
		return tv
	}
	panic(pathEnd{"unsupported", "zero of type " + t.String()})
}

func copyVal(v Val) Val {
	switch x := v.(type) {
	case *StructVal:
		n := &StructVal{f: make([]Val, len(x.f))}
		for i, f := range x.f {
			n.f[i] = copyVal(f)
		}
		return n
	case *ArrayVal:
		n := &ArrayVal{e: make([]Val, len(x.e))}
		for i, f := range x.e {
			n.e[i] = copyVal(f)
		}
		return n
	}
	return v
}

func (pt *Pointer) load() Val {
	if pt.isNil() || pt.obj == nil {
		panic(pathEnd{"panic", "nil pointer dereference"})
	}
	v := pt.obj.val
	for _, i := range pt.path {
		switch x := v.(type) {
		case *StructVal:
			v = x.f[i]
		case *ArrayVal:
			if i < 0 || i >= len(x.e) {
				panic(pathEnd{"panic", "index out of range (pointer path)"})
			}
			v = x.e[i]
		default:
			panic(fmt.Sprintf("pointer path into %T", v))
		}
	}
	return copyVal(v)
}

func (pt *Pointer) store(nv Val) {
	if pt.isNil() || pt.obj == nil {
		panic(pathEnd{"panic", "nil pointer dereference (store)"})
	}
	nv = copyVal(nv)
	if len(pt.path) == 0 {
		pt.obj.val = nv
		return
	}
	v := pt.obj.val
	for k, i := range pt.path {
		last := k == len(pt.path)-1
		switch x := v.(type) {
		case *StructVal:
			if last {
				x.f[i] = nv
				return
			}
			v = x.f[i]
		case *ArrayVal:
			if i < 0 || i >= len(x.e) {
				panic(pathEnd{"panic", "index out of range (store)"})
			}
			if last {
				x.e[i] = nv
				return
			}
			v = x.e[i]
		default:
			panic(fmt.Sprintf("pointer path into %T", v))
		}
	}
}

func (pt *Pointer) sub(i int) *Pointer {
	np := make([]int, len(pt.path)+1)
	copy(np, pt.path)
	np[len(pt.path)] = i
	return &Pointer{obj: pt.obj, path: np}
}

func samePointer(a, b *Pointer) bool {
	if a.isNil() || b.isNil() {
		return a.isNil() && b.isNil()
	}
	if a.obj != b.obj || a.model != b.model || len(a.path) != len(b.path) {
		return false
	}
	for i := range a.path {
		if a.path[i] != b.path[i] {
			return false
		}
	}
	return true
}

func newSlice(elems []Val) SliceVal {
	return SliceVal{back: &Obj{val: &ArrayVal{e: elems}}, off: 0, n: mkInt(int64(len(elems))), cap: len(elems)}
}

func (s SliceVal) elems() []Val {
	if s.back == nil {
		return nil
	}
	return s.back.val.(*ArrayVal).e[s.off : s.off+s.cap]
}

// concLen returns the concrete length or panics as unsupported (callers concretize first).
func (s SliceVal) concLen() int {
	if !s.n.C {
		panic(pathEnd{"unsupported", "symbolic slice length where a concrete one is required"})
	}
	return int(s.n.U)
}
