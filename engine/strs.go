package main

// Bounded byte-string theory in QF_BV: a string is (bytes[0..C-1], len) with len <= C.

func (p *Path) strAt(s StringVal, i *Term) *Term {
	if i.C {
		k := int(i.U)
		if k >= 0 && k < len(s.b) {
			return s.b[k]
		}
		return mkBV(8, 0)
	}
	if len(s.b) == 0 {
		return mkBV(8, 0)
	}
	r := s.b[len(s.b)-1]
	for k := len(s.b) - 2; k >= 0; k-- {
		r = p.ite(p.bvCmp("=", i, mkInt(int64(k))), s.b[k], r)
	}
	return r
}

func (p *Path) assumeASCII(b *Term) {
	if b.C {
		if b.U >= 0x80 {
			p.end("unsupported", "non-ASCII byte in rune/case-mapping model")
		}
		return
	}
	p.ex.res.mu.Lock()
	p.ex.res.Covers["$ascii-assumption"] = true
	p.ex.res.CoverSeen["$ascii-assumption"] = true
	p.ex.res.mu.Unlock()
	p.assume(p.bvCmp("bvult", b, mkBV(8, 0x80)))
}

func (p *Path) strEq(a, b StringVal) *Term {
	r := p.bvCmp("=", a.n, b.n)
	if r.C && !r.B {
		return r
	}
	m := len(a.b)
	if len(b.b) < m {
		m = len(b.b)
	}
	// if lengths are equal they are <= min capacity by the len<=cap invariant
	for i := 0; i < m; i++ {
		within := p.bvCmp("bvult", mkInt(int64(i)), a.n)
		if within.C && !within.B {
			break
		}
		r = p.and(r, p.implies(within, p.bvCmp("=", a.b[i], b.b[i])))
		if r.C && !r.B {
			return r
		}
	}
	if len(a.b) != len(b.b) {
		r = p.and(r, p.bvCmp("bvule", a.n, mkInt(int64(m))))
	}
	return r
}

// bytewise a < b
func (p *Path) strLess(a, b StringVal) *Term {
	m := len(a.b)
	if len(b.b) > m {
		m = len(b.b)
	}
	res := termFalse
	prefEq := termTrue
	for i := 0; i <= m; i++ {
		ii := mkInt(int64(i))
		inA := p.bvCmp("bvult", ii, a.n)
		inB := p.bvCmp("bvult", ii, b.n)
		var ab, bb *Term
		if i < len(a.b) {
			ab = a.b[i]
		} else {
			ab = mkBV(8, 0)
			inA = termFalse
		}
		if i < len(b.b) {
			bb = b.b[i]
		} else {
			bb = mkBV(8, 0)
			inB = termFalse
		}
		// a ends here, b continues => less
		endA := p.and(p.not(inA), inB)
		lt := p.and(p.and(inA, inB), p.bvCmp("bvult", ab, bb))
		res = p.or(res, p.and(prefEq, p.or(endA, lt)))
		prefEq = p.and(prefEq, p.and(p.and(inA, inB), p.bvCmp("=", ab, bb)))
		if prefEq.C && !prefEq.B {
			break
		}
	}
	return res
}

func (p *Path) strConcat(a, b StringVal) StringVal {
	if a.n.C {
		n := int(a.n.U)
		if n > len(a.b) {
			n = len(a.b)
		}
		if n == 0 {
			return b
		}
		if b.n.C && b.n.U == 0 {
			return a
		}
		out := make([]*Term, 0, n+len(b.b))
		out = append(out, a.b[:n]...)
		out = append(out, b.b...)
		return StringVal{b: out, n: p.bvBin("bvadd", a.n, b.n)}
	}
	ca, cb := len(a.b), len(b.b)
	out := make([]*Term, ca+cb)
	for k := 0; k < ca+cb; k++ {
		// b part: a.n == k-j -> b[j]
		var bp *Term = mkBV(8, 0)
		for j := cb - 1; j >= 0; j-- {
			if k-j < 0 || k-j > ca {
				continue
			}
			bp = p.ite(p.bvCmp("=", a.n, mkInt(int64(k-j))), b.b[j], bp)
		}
		if k < ca {
			out[k] = p.ite(p.bvCmp("bvult", mkInt(int64(k)), a.n), a.b[k], bp)
		} else {
			out[k] = bp
		}
	}
	return StringVal{b: out, n: p.bvBin("bvadd", a.n, b.n)}
}

func (p *Path) strSlice(s StringVal, lo, hi *Term) StringVal {
	if lo == nil {
		lo = mkInt(0)
	}
	if hi == nil {
		hi = s.n
	}
	bad := p.or(p.bvCmp("bvugt", lo, hi), p.bvCmp("bvugt", hi, s.n))
	if p.branch(bad) {
		p.end("panic", "string slice bounds out of range")
	}
	l := p.concretize(lo, 0, len(s.b))
	return StringVal{b: s.b[l:], n: p.bvBin("bvsub", hi, mkInt(int64(l)))}
}

// matchAt: does sub occur in s at concrete offset o?
func (p *Path) matchAt(s, sub StringVal, o int) *Term {
	r := p.bvCmp("bvule", p.bvBin("bvadd", mkInt(int64(o)), sub.n), s.n)
	for i := 0; i < len(sub.b); i++ {
		if r.C && !r.B {
			return r
		}
		within := p.bvCmp("bvult", mkInt(int64(i)), sub.n)
		if within.C && !within.B {
			break
		}
		if o+i >= len(s.b) {
			r = p.and(r, p.not(within))
			break
		}
		r = p.and(r, p.implies(within, p.bvCmp("=", s.b[o+i], sub.b[i])))
	}
	return r
}

func (p *Path) strHasPrefix(s, pre StringVal) *Term { return p.matchAt(s, pre, 0) }

func (p *Path) strHasSuffix(s, suf StringVal) *Term {
	// s[len(s)-len(suf):] == suf ; fork-free when lengths are concrete, else enumerate offsets
	r := termFalse
	for o := 0; o <= len(s.b); o++ {
		at := p.bvCmp("=", p.bvBin("bvadd", mkInt(int64(o)), suf.n), s.n)
		if at.C && !at.B {
			continue
		}
		r = p.or(r, p.and(at, p.matchAt(s, suf, o)))
	}
	return r
}

// strIndex returns the first offset of sub in s, or -1, as a term.
func (p *Path) strIndex(s, sub StringVal) *Term {
	r := mkInt(-1)
	for o := len(s.b); o >= 0; o-- {
		m := p.matchAt(s, sub, o)
		if m.C && !m.B {
			continue
		}
		r = p.ite(m, mkInt(int64(o)), r)
	}
	return r
}

func (p *Path) strLastIndex(s, sub StringVal) *Term {
	r := mkInt(-1)
	for o := 0; o <= len(s.b); o++ {
		m := p.matchAt(s, sub, o)
		if m.C && !m.B {
			continue
		}
		r = p.ite(m, mkInt(int64(o)), r)
	}
	return r
}

func (p *Path) strContains(s, sub StringVal) *Term {
	r := termFalse
	for o := 0; o <= len(s.b); o++ {
		r = p.or(r, p.matchAt(s, sub, o))
		if r.C && r.B {
			return r
		}
	}
	return r
}

func (p *Path) strMapBytes(s StringVal, f func(b *Term) *Term) StringVal {
	out := make([]*Term, len(s.b))
	for i, b := range s.b {
		out[i] = f(b)
	}
	return StringVal{b: out, n: s.n}
}

func (p *Path) strToUpper(s StringVal) StringVal {
	return p.strMapBytes(s, func(b *Term) *Term {
		if b.C {
			if b.U >= 0x80 {
				return b // only reachable beyond the string's length (in-range bytes are assumed ASCII by the caller)
			}
			if b.U >= 'a' && b.U <= 'z' {
				return mkBV(8, b.U-0x20)
			}
			return b
		}
		isLower := p.and(p.bvCmp("bvuge", b, mkBV(8, 'a')), p.bvCmp("bvule", b, mkBV(8, 'z')))
		return p.ite(isLower, p.bvBin("bvsub", b, mkBV(8, 0x20)), b)
	})
}

func (p *Path) strToLower(s StringVal) StringVal {
	return p.strMapBytes(s, func(b *Term) *Term {
		if b.C {
			if b.U >= 0x80 {
				return b
			}
			if b.U >= 'A' && b.U <= 'Z' {
				return mkBV(8, b.U+0x20)
			}
			return b
		}
		isUpper := p.and(p.bvCmp("bvuge", b, mkBV(8, 'A')), p.bvCmp("bvule", b, mkBV(8, 'Z')))
		return p.ite(isUpper, p.bvBin("bvadd", b, mkBV(8, 0x20)), b)
	})
}

// assumeAllASCII constrains every in-range byte of s to be < 0x80 (recorded as an assumption).
func (p *Path) assumeAllASCII(s StringVal) {
	for i, b := range s.b {
		if b.C {
			if b.U >= 0x80 {
				within := p.bvCmp("bvult", mkInt(int64(i)), s.n)
				if within.C && within.B {
					p.end("unsupported", "non-ASCII byte in case-mapping model")
				}
				p.assume(p.not(within))
			}
			continue
		}
		within := p.bvCmp("bvult", mkInt(int64(i)), s.n)
		if within.C && !within.B {
			break
		}
		p.ex.res.mu.Lock()
		p.ex.res.Covers["$ascii-assumption"] = true
		p.ex.res.CoverSeen["$ascii-assumption"] = true
		p.ex.res.mu.Unlock()
		p.assume(p.implies(within, p.bvCmp("bvult", b, mkBV(8, 0x80))))
	}
}

// concretizeLen forks on the string length so that later operations see a concrete shape.
func (p *Path) concretizeLen(s StringVal) (StringVal, int) {
	n := p.concretize(s.n, 0, len(s.b))
	return StringVal{b: s.b[:n], n: mkInt(int64(n))}, n
}
