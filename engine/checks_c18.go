package main

import (
	"golang.org/x/tools/go/ssa"
)

const jsonPkg = repoMod + "/pkg/storage/jsondb"

func registerStoreCommon(in *Interp) {
	// crypto/rand: distinct fresh bytes on each call (IDs generated from them are distinct)
	in.intr["crypto/rand.Read"] = func(in *Interp, p *Path, fr *Frame, a []Val, s ssa.CallInstruction) Val {
		sl := a[0].(SliceVal)
		ctr := 0
		if c, ok := p.stubs["rand.ctr"].(*Term); ok {
			ctr = int(c.U)
		}
		p.stubs["rand.ctr"] = mkInt(int64(ctr + 1))
		if sl.back != nil {
			el := sl.elems()
			for i := 0; i < sl.concLen(); i++ {
				el[i] = mkBV(8, uint64((ctr*31+i*7+1)&0xff))
			}
		}
		return TupleVal{sl.n, IfaceVal{}}
	}
}

func init() {
	checks["C18"] = func(c *CheckCtx) {
		ops := int64(3)
		if c.Tier == "thorough" {
			ops = 4
		}
		cfgs := []*HarnessCfg{
			{Name: "VerifC18_JSONAddGet", Pkg: jsonPkg, Solver: "z3", Params: map[string]int64{"ops": ops}, MaxPaths: 400000},
			{Name: "VerifC18_JSONAutoID", Pkg: jsonPkg, Solver: "z3"},
			{Name: "VerifC18_SaveAtomic", Pkg: jsonPkg, Solver: "z3", EngineReplay: true, MaxPaths: 400000},
			{Name: "VerifC18_SaveOverlap", Pkg: jsonPkg, Solver: "z3", EngineReplay: true},
		}
		cfgs = append(cfgs, c18PebbleCfgs(c)...)
		c.Assumptions = append(c.Assumptions,
			"JSON back end: histories of up to 3 (thorough 4) operations from {AddSignature, AddSignatures of 1-2}, IDs from a pool of two, other fields symbolic (strings <= 2 bytes, doubles and ints unconstrained); crypto/rand returns distinct fresh bytes",
			"SaveDatabase runs against a small file-system model (named cells; CreateTemp yields a fresh name; every call may fail once according to a symbolic fault script; a second overlapping save runs as a block before any one call); it cannot be realised natively and is confirmed by concrete re-execution of the SSA",
			"Pebble back end: histories of up to 2 operations over the Pebble contract model (3 did not finish within the 40-minute cap of the whole check) (pool signatures, IDs from a pool of two)",
			"migration: the JSON file is a token list {[version:v] [signatures:[sig|bad ...]] [generated_at:v]} with up to 2 elements, truncated at a solver-chosen token boundary or inside a solver-chosen token; json.Decoder is replaced by a token-level model (engine/jsonstream.go) whose answers were validated against the real decoder by native replay of one witness per truncation shape (selftest); export: the value handed to json.MarshalIndent is compared with the stored set",
			"the 1000-entry batch flush, files that are valid JSON of another schema, unicode content and JSON escaping are outside this bound")
		pk := []string{"pkg/storage/jsondb"}
		if len(cfgs) > 2 {
			pk = append(pk, "pkg/storage/pebbledb")
		}
		c.runModeT(pk, cfgs)
	}
}
