package main

import (
	"golang.org/x/tools/go/ssa"
)

const jsonPkg = repoMod + "/pkg/storage/jsondb"

func registerStoreCommon(in *Interp) {
	// crypto/rand: distinct fresh bytes on each call (IDs generated from them are distinct)
	in.intr["crypto/rand.Read"] = func(in *Interp, p *Path, fr *Frame, a []Val, s ssa.CallInstruction) Val {
		sl := a[0].(SliceVal)
		ctr := 0
		if c, ok := p.stubs["rand.ctr"].(*Term); ok {
			ctr = int(c.U)
		}
		p.stubs["rand.ctr"] = mkInt(int64(ctr + 1))
		if sl.back != nil {
			el := sl.elems()
			for i := 0; i < sl.concLen(); i++ {
				el[i] = mkBV(8, uint64((ctr*31+i*7+1)&0xff))
			}
		}
		return TupleVal{sl.n, IfaceVal{}}
	}
}

func init() {
	checks["C18"] = func(c *CheckCtx) {
		ops := int64(3)
		if c.Tier == "thorough" {
			ops = 4
		}
		cfgs := []*HarnessCfg{
			{Name: "VerifC18_JSONAddGet", Pkg: jsonPkg, Solver: "z3", Params: map[string]int64{"ops": ops}, MaxPaths: 400000},
			{Name: "VerifC18_JSONAutoID", Pkg: jsonPkg, Solver: "z3"},
		}
		cfgs = append(cfgs, c18PebbleCfgs(c)...)
		c.Assumptions = append(c.Assumptions,
			"JSON back end: histories of up to 3 (thorough 4) operations from {AddSignature, AddSignatures of 1-2}, IDs from a pool of two, other fields symbolic (strings <= 2 bytes, doubles and ints unconstrained); crypto/rand returns distinct fresh bytes",
			"migration/export round trips through encoding/json and gob, the 1000-entry batch boundary and truncation handling of the streaming decoder are not encoded (stated gaps)")
		pk := []string{"pkg/storage/jsondb"}
		if len(cfgs) > 2 {
			pk = append(pk, "pkg/storage/pebbledb")
		}
		c.runModeT(pk, cfgs)
	}
}
