package main

// Persistent SMT solver processes (cvc5 --incremental / z3 -in) driven over pipes.

import (
	"sync"
	"os"
	"bufio"
	"fmt"
	"io"
	"os/exec"
	"strconv"
	"strings"
	"sync/atomic"
	"time"
)

type Solver struct {
	kind    string // "cvc5" | "z3" | "z3-new"
	cmd     *exec.Cmd
	in      io.WriteCloser
	out     *bufio.Reader
	timeout int // ms per query
	dead    bool
	errBuf  *tailBuf
	deaths  int
}

// tailBuf keeps the last bytes written to it (the solver's stderr)
type tailBuf struct {
	mu sync.Mutex
	b  []byte
}

func (t *tailBuf) Write(p []byte) (int, error) {
	t.mu.Lock()
	t.b = append(t.b, p...)
	if len(t.b) > 2000 {
		t.b = t.b[len(t.b)-2000:]
	}
	t.mu.Unlock()
	return len(p), nil
}
func (t *tailBuf) String() string {
	t.mu.Lock()
	defer t.mu.Unlock()
	return string(t.b)
}

// restart replaces a dead solver process by a fresh one (the caller re-sends its assertion stack)
func (s *Solver) restart() error {
	n, err := startSolver(s.kind, s.timeout)
	if err != nil {
		return err
	}
	if s.cmd != nil && s.cmd.Process != nil {
		s.cmd.Process.Kill()
		go s.cmd.Wait()
	}
	d := s.deaths + 1
	*s = *n
	s.deaths = d
	return nil
}

type SolverStats struct {
	Queries  int64
	Sat      int64
	Unsat    int64
	Unknown  int64
	Errors   int64
	NanosSum int64
}

var gStats = map[string]*SolverStats{"cvc5": {}, "z3": {}, "z3-new": {}}

func init() {
	if f := os.Getenv("VERIF_SMTLOG"); f != "" {
		smtLog, _ = os.Create(f)
	}
}

func startSolver(kind string, timeoutMs int) (*Solver, error) {
	var cmd *exec.Cmd
	switch kind {
	case "cvc5":
		cmd = exec.Command("cvc5", "--incremental", "--produce-models", "--lang=smt2", fmt.Sprintf("--tlimit-per=%d", timeoutMs))
	case "z3":
		cmd = exec.Command("z3", "-in", "-smt2", fmt.Sprintf("-t:%d", timeoutMs))
	case "z3-new":
		cmd = exec.Command("z3-new", "-in", "-smt2", fmt.Sprintf("-t:%d", timeoutMs))
	default:
		return nil, fmt.Errorf("unknown solver %s", kind)
	}
	in, err := cmd.StdinPipe()
	if err != nil {
		return nil, err
	}
	out, err := cmd.StdoutPipe()
	if err != nil {
		return nil, err
	}
	eb := &tailBuf{}
	cmd.Stderr = eb
	if err := cmd.Start(); err != nil {
		return nil, err
	}
	s := &Solver{kind: kind, cmd: cmd, in: in, out: bufio.NewReaderSize(out, 1<<16), timeout: timeoutMs, errBuf: eb}
	if kind == "cvc5" {
		s.send("(set-logic ALL)")
	}
	s.send("(set-option :produce-models true)")
	return s, nil
}

var smtLog *os.File

func (s *Solver) send(line string) {
	if s.dead {
		return
	}
	if smtLog != nil {
		smtLog.WriteString(line + "\n")
	}
	if _, err := io.WriteString(s.in, line+"\n"); err != nil {
		s.dead = true
	}
}

func (s *Solver) close() {
	if s == nil {
		return
	}
	s.in.Close()
	done := make(chan struct{})
	go func() { s.cmd.Wait(); close(done) }()
	select {
	case <-done:
	case <-time.After(500 * time.Millisecond):
		s.cmd.Process.Kill()
		<-done
	}
}

// readSexp reads one complete response: an atom line or a balanced s-expression.
func (s *Solver) readResp() (string, error) {
	var sb strings.Builder
	depth := 0
	started := false
	for {
		line, err := s.out.ReadString('\n')
		if err != nil {
			s.dead = true
			return sb.String(), err
		}
		t := strings.TrimSpace(line)
		if t == "" && !started {
			continue
		}
		started = true
		sb.WriteString(t)
		sb.WriteByte(' ')
		instr := false
		for i := 0; i < len(t); i++ {
			c := t[i]
			if c == '"' {
				instr = !instr
			}
			if instr {
				continue
			}
			if c == '(' {
				depth++
			} else if c == ')' {
				depth--
			}
		}
		if depth <= 0 {
			return strings.TrimSpace(sb.String()), nil
		}
	}
}

// check runs (check-sat) on the current assertion stack. Returns "sat"/"unsat"/"unknown"/"error".
func (s *Solver) check() string {
	st := gStats[s.kind]
	t0 := time.Now()
	s.send("(check-sat)")
	resp, err := s.readResp()
	atomic.AddInt64(&st.NanosSum, int64(time.Since(t0)))
	atomic.AddInt64(&st.Queries, 1)
	if err != nil {
		atomic.AddInt64(&st.Errors, 1)
		gLastSolverError.Store(fmt.Sprintf("solver process %s died: %v; stderr: %s", s.kind, err, firstLine(strings.TrimSpace(s.errBuf.String()))))
		if os.Getenv("VERIF_DEBUG") != "" {
			fmt.Fprintf(os.Stderr, "SOLVER DIED (%s): %v\n%s\n", s.kind, err, s.errBuf.String())
		}
		return "error"
	}
	switch {
	case resp == "sat":
		atomic.AddInt64(&st.Sat, 1)
		return "sat"
	case resp == "unsat":
		atomic.AddInt64(&st.Unsat, 1)
		return "unsat"
	case strings.HasPrefix(resp, "(error"):
		atomic.AddInt64(&st.Errors, 1)
		gLastSolverError.Store(resp)
		return "error"
	default:
		atomic.AddInt64(&st.Unknown, 1)
		return "unknown"
	}
}

var gLastSolverError atomic.Value

// getValues returns raw value strings for the given names (after a sat answer).
func (s *Solver) getValues(names []string) (map[string]string, error) {
	res := map[string]string{}
	if len(names) == 0 {
		return res, nil
	}
	s.send("(get-value (" + strings.Join(names, " ") + "))")
	resp, err := s.readResp()
	if err != nil {
		return nil, err
	}
	if strings.HasPrefix(resp, "(error") {
		return nil, fmt.Errorf("solver: %s", resp)
	}
	// resp = ((name value) (name value) ...)
	toks := tokenize(resp)
	pos := 0
	var parse func() interface{}
	parse = func() interface{} {
		if pos >= len(toks) {
			return nil
		}
		t := toks[pos]
		pos++
		if t == "(" {
			var l []interface{}
			for pos < len(toks) && toks[pos] != ")" {
				l = append(l, parse())
			}
			pos++
			return l
		}
		return t
	}
	top, _ := parse().([]interface{})
	for _, e := range top {
		pair, ok := e.([]interface{})
		if !ok || len(pair) != 2 {
			continue
		}
		name, _ := pair[0].(string)
		res[name] = flatten(pair[1])
	}
	return res, nil
}

func tokenize(s string) []string {
	var toks []string
	i := 0
	for i < len(s) {
		c := s[i]
		switch {
		case c == '(' || c == ')':
			toks = append(toks, string(c))
			i++
		case c == ' ' || c == '\n' || c == '\t':
			i++
		default:
			j := i
			for j < len(s) && s[j] != '(' && s[j] != ')' && s[j] != ' ' && s[j] != '\n' {
				j++
			}
			toks = append(toks, s[i:j])
			i = j
		}
	}
	return toks
}

func flatten(x interface{}) string {
	switch v := x.(type) {
	case string:
		return v
	case []interface{}:
		parts := make([]string, len(v))
		for i, e := range v {
			parts[i] = flatten(e)
		}
		return "(" + strings.Join(parts, " ") + ")"
	}
	return ""
}

// parse a model value into uint64 bits (BV/Bool/FP).
func parseModelValue(v string, k Kind, w int) (uint64, bool) {
	v = strings.TrimSpace(v)
	switch k {
	case KBool:
		return map[string]uint64{"true": 1, "false": 0}[v], v == "true" || v == "false"
	case KBV:
		if strings.HasPrefix(v, "#x") {
			if len(v)-2 > 16 {
				v = "#x" + v[len(v)-16:]
			}
			u, err := strconv.ParseUint(v[2:], 16, 64)
			return u, err == nil
		}
		if strings.HasPrefix(v, "#b") {
			b := v[2:]
			if len(b) > 64 {
				b = b[len(b)-64:]
			}
			u, err := strconv.ParseUint(b, 2, 64)
			return u, err == nil
		}
		if strings.HasPrefix(v, "(_ bv") {
			f := strings.Fields(v[5:])
			u, err := strconv.ParseUint(f[0], 10, 64)
			return u, err == nil
		}
	case KFP:
		// (fp #b0 #b10000000000 #b000...) or with #x mantissa; (_ +zero 11 53), (_ NaN 11 53), (_ +oo 11 53)
		if strings.HasPrefix(v, "(fp ") {
			f := strings.Fields(strings.TrimSuffix(v[4:], ")"))
			if len(f) != 3 {
				return 0, false
			}
			bits := func(s string) (uint64, int) {
				if strings.HasPrefix(s, "#b") {
					u, _ := strconv.ParseUint(s[2:], 2, 64)
					return u, len(s) - 2
				}
				u, _ := strconv.ParseUint(s[2:], 16, 64)
				return u, 4 * (len(s) - 2)
			}
			sg, _ := bits(f[0])
			ex, _ := bits(f[1])
			mn, _ := bits(f[2])
			return sg<<63 | ex<<52 | mn, true
		}
		switch {
		case strings.Contains(v, "+zero"):
			return 0, true
		case strings.Contains(v, "-zero"):
			return 1 << 63, true
		case strings.Contains(v, "NaN"):
			return 0x7ff8000000000001, true
		case strings.Contains(v, "+oo"):
			return 0x7ff0000000000000, true
		case strings.Contains(v, "-oo"):
			return 0xfff0000000000000, true
		}
	}
	return 0, false
}

// oneShot runs a complete script in a fresh, non-incremental solver process (the solvers'
// default strategies are much stronger there than under push/pop).
func oneShot(kind string, script []string, extras []string, timeoutMs int, names []string) (string, map[string]string) {
	var cmd *exec.Cmd
	secs := timeoutMs/1000 + 1
	switch kind {
	case "cvc5":
		cmd = exec.Command("cvc5", "--produce-models", "--lang=smt2", fmt.Sprintf("--tlimit=%d", timeoutMs))
	case "z3-new":
		cmd = exec.Command("z3-new", "-in", "-smt2", fmt.Sprintf("-T:%d", secs))
	default:
		cmd = exec.Command("z3", "-in", "-smt2", fmt.Sprintf("-T:%d", secs))
	}
	var sb strings.Builder
	if kind == "cvc5" {
		sb.WriteString("(set-logic ALL)\n")
	}
	sb.WriteString("(set-option :produce-models true)\n")
	for _, l := range script {
		sb.WriteString(l)
		sb.WriteByte('\n')
	}
	for _, e := range extras {
		sb.WriteString("(assert " + e + ")\n")
	}
	sb.WriteString("(check-sat)\n")
	if len(names) > 0 {
		sb.WriteString("(get-value (" + strings.Join(names, " ") + "))\n")
	}
	cmd.Stdin = strings.NewReader(sb.String())
	st := gStats[kind]
	t0 := time.Now()
	out, _ := cmd.Output()
	atomic.AddInt64(&st.NanosSum, int64(time.Since(t0)))
	atomic.AddInt64(&st.Queries, 1)
	text := strings.TrimSpace(string(out))
	first := text
	rest := ""
	if i := strings.IndexByte(text, '\n'); i >= 0 {
		first, rest = strings.TrimSpace(text[:i]), text[i+1:]
	}
	switch first {
	case "unsat":
		atomic.AddInt64(&st.Unsat, 1)
		return "unsat", nil
	case "sat":
		atomic.AddInt64(&st.Sat, 1)
		model := map[string]string{}
		if len(names) > 0 && !strings.Contains(rest, "(error") {
			toks := tokenize(rest)
			pos := 0
			var parse func() interface{}
			parse = func() interface{} {
				if pos >= len(toks) {
					return nil
				}
				t := toks[pos]
				pos++
				if t == "(" {
					var l []interface{}
					for pos < len(toks) && toks[pos] != ")" {
						l = append(l, parse())
					}
					pos++
					return l
				}
				return t
			}
			top, _ := parse().([]interface{})
			for _, e := range top {
				pair, ok := e.([]interface{})
				if ok && len(pair) == 2 {
					if name, ok := pair[0].(string); ok {
						model[name] = flatten(pair[1])
					}
				}
			}
		}
		return "sat", model
	}
	if strings.Contains(text, "(error") {
		atomic.AddInt64(&st.Errors, 1)
		gLastSolverError.Store(text)
		return "error", nil
	}
	atomic.AddInt64(&st.Unknown, 1)
	return "unknown", nil
}
