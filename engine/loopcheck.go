package main

// C12 (Mode S): the real loop.DetectLoops / loop.AnalyzeSCEV run natively on the very ssa.Function
// the engine then executes symbolically. At every evaluation of a loop header the engine asserts
// that each basic induction variable equals Start + k*Step (mod its width); when an activation
// ends it asserts that the number of times the loop body was entered equals TripCount(args)
// whenever that tree evaluates to a number.

import (
	"fmt"
	"go/token"
	"go/types"
	"math/big"
	"sync"

	"github.com/BlackVectorOps/semantic_firewall/v3/pkg/analysis/loop"
	"golang.org/x/tools/go/ssa"
)

type fnLoops struct {
	info    *loop.LoopInfo
	all     []*loop.Loop
	headers map[*ssa.BasicBlock]*loop.Loop
}

var loopCache = map[*ssa.Function]*fnLoops{}
var loopCacheMu sync.Mutex

func collectLoops(ls []*loop.Loop, out *[]*loop.Loop) {
	for _, l := range ls {
		*out = append(*out, l)
		collectLoops(l.Children, out)
	}
}

func loopsOf(fn *ssa.Function) *fnLoops {
	loopCacheMu.Lock()
	defer loopCacheMu.Unlock()
	if fl, ok := loopCache[fn]; ok {
		return fl
	}
	info := loop.DetectLoops(fn)
	loop.AnalyzeSCEV(info)
	fl := &fnLoops{info: info, headers: map[*ssa.BasicBlock]*loop.Loop{}}
	collectLoops(info.Loops, &fl.all)
	for _, l := range fl.all {
		fl.headers[l.Header] = l
	}
	if len(fl.all) == 0 {
		fl = nil
	}
	loopCache[fn] = fl
	return fl
}

type loopAct struct {
	active bool
	k      int // header evaluations so far in this activation (0-based index of the current one)
	stays  int // times control entered the body from the exiting test
}

type frameLoops struct {
	fl   *fnLoops
	acts map[*loop.Loop]*loopAct
}

// onBlockEntry is called by exec after the phis of `block` have been assigned.
func (in *Interp) loopHook(p *Path, fr *Frame, prev, block *ssa.BasicBlock) {
	st := fr.loops
	if st == nil {
		return
	}
	fname := fr.fn.Name()
	// activations that end: control is now outside the loop's blocks
	for _, l := range st.fl.all {
		a := st.acts[l]
		if a == nil || !a.active {
			continue
		}
		if !l.Blocks[block] {
			a.active = false
			in.assertTrip(p, fr, l, a, fname)
		}
	}
	// body entries: the single exiting block decided to stay
	if prev != nil {
		for _, l := range st.fl.all {
			a := st.acts[l]
			if a == nil || !a.active || len(l.Exits) != 1 {
				continue
			}
			if prev == l.Exits[0] && l.Blocks[block] {
				if _, isIf := prev.Instrs[len(prev.Instrs)-1].(*ssa.If); isIf {
					a.stays++
				}
			}
		}
	}
	if l, ok := st.fl.headers[block]; ok {
		a := st.acts[l]
		if a == nil {
			a = &loopAct{}
			st.acts[l] = a
		}
		if a.active && prev != nil && l.Blocks[prev] {
			a.k++
		} else {
			a.active, a.k, a.stays = true, 0, 0
		}
		in.assertIVs(p, fr, l, a, fname)
	}
}

// loopReturn: a return (or panic) from inside a loop ends every activation of the frame.
func (in *Interp) loopFrameEnd(p *Path, fr *Frame) {
	st := fr.loops
	if st == nil {
		return
	}
	for _, l := range st.fl.all {
		a := st.acts[l]
		if a != nil && a.active {
			a.active = false
			in.assertTrip(p, fr, l, a, fr.fn.Name())
		}
	}
}

func loopLabel(l *loop.Loop) string { return fmt.Sprintf("L%d", l.Header.Index) }

func (in *Interp) assertIVs(p *Path, fr *Frame, l *loop.Loop, a *loopAct, fname string) {
	for _, ins := range l.Header.Instrs {
		phi, ok := ins.(*ssa.Phi)
		if !ok {
			break
		}
		iv := l.Inductions[phi]
		if iv == nil || iv.Type != loop.IVTypeBasic {
			continue
		}
		w, _, isInt := intWidth(phi.Type())
		if !isInt {
			continue
		}
		start := in.evalSCEVw(p, fr, iv.Start, w)
		step := in.evalSCEVw(p, fr, iv.Step, w)
		if start == nil || step == nil {
			continue
		}
		cur := asTerm(in.get(p, fr, phi))
		closed := p.bvBin("bvadd", start, p.bvBin("bvmul", mkBV(w, uint64(a.k)), step))
		p.noteLoopFact(fname, "iv")
		p.vxAssert(fmt.Sprintf("iv-closed-form:%s:%s", fname, loopLabel(l)), p.bvCmp("=", cur, closed))
	}
}

const tripW = 200

func (in *Interp) assertTrip(p *Path, fr *Frame, l *loop.Loop, a *loopAct, fname string) {
	if l.TripCount == nil {
		return
	}
	ok := termTrue
	tc := in.evalSCEVbig(p, fr, l.TripCount, &ok)
	if tc == nil {
		return
	}
	if ok.C && !ok.B {
		return
	}
	p.noteLoopFact(fname, "trip")
	want := mkBVBig(tripW, big.NewInt(int64(a.stays)))
	// the tree evaluates (no division by zero) => it equals the number of body executions
	p.vxAssert(fmt.Sprintf("trip-count:%s:%s", fname, loopLabel(l)), p.implies(ok, p.bvCmp("=", tc, want)))
}

func (p *Path) noteLoopFact(fname, kind string) {
	p.ex.res.mu.Lock()
	p.ex.res.Covers["loopfact:"+kind+":"+fname] = true
	p.ex.res.CoverSeen["loopfact:"+kind+":"+fname] = true
	p.ex.res.mu.Unlock()
}

func bigToBV(w int, v *big.Int) *Term { return mkBVBig(w, v) }

// evalSCEVw evaluates a SCEV tree in w-bit wrapping arithmetic (what the variable really holds).
func (in *Interp) evalSCEVw(p *Path, fr *Frame, s loop.SCEV, w int) *Term {
	switch x := s.(type) {
	case *loop.SCEVConstant:
		return bigToBV(w, x.Value)
	case *loop.SCEVUnknown:
		if x.Value == nil {
			return nil
		}
		v, ok := fr.env[x.Value]
		if !ok {
			if c, isC := x.Value.(*ssa.Const); isC {
				v = in.constVal(c)
			} else {
				return nil
			}
		}
		t, isT := v.(*Term)
		if !isT || t.K != KBV {
			return nil
		}
		_, signed, _ := intWidth(x.Value.Type())
		if t.W == w {
			return t
		}
		if t.W > w {
			return p.extract(t, w-1, 0)
		}
		if signed {
			return p.sextT(t, w)
		}
		return p.zext(t, w)
	case *loop.SCEVGenericExpr:
		a, b := in.evalSCEVw(p, fr, x.X, w), in.evalSCEVw(p, fr, x.Y, w)
		if a == nil || b == nil {
			return nil
		}
		switch x.Op {
		case token.ADD:
			return p.bvBin("bvadd", a, b)
		case token.SUB:
			return p.bvBin("bvsub", a, b)
		case token.MUL:
			return p.bvBin("bvmul", a, b)
		}
		return nil
	case *loop.SCEVAddRec:
		st := fr.loops
		if st == nil || x.Loop == nil {
			return nil
		}
		a := st.acts[x.Loop]
		if a == nil {
			return nil
		}
		s0, s1 := in.evalSCEVw(p, fr, x.Start, w), in.evalSCEVw(p, fr, x.Step, w)
		if s0 == nil || s1 == nil {
			return nil
		}
		return p.bvBin("bvadd", s0, p.bvBin("bvmul", mkBV(w, uint64(a.k)), s1))
	case *loop.SCEVMax:
		a, b := in.evalSCEVw(p, fr, x.X, w), in.evalSCEVw(p, fr, x.Y, w)
		if a == nil || b == nil {
			return nil
		}
		return p.ite(p.bvCmp("bvsgt", a, b), a, b)
	}
	return nil
}

// evalSCEVbig evaluates a SCEV tree with unbounded-integer semantics (big.Int in the tool) in
// 200-bit vectors: leaves are sign/zero-extended machine values, so no intermediate can wrap.
// ok accumulates the conditions under which the tree evaluates (no division by zero).
func (in *Interp) evalSCEVbig(p *Path, fr *Frame, s loop.SCEV, ok **Term) *Term {
	switch x := s.(type) {
	case *loop.SCEVConstant:
		return bigToBV(tripW, x.Value)
	case *loop.SCEVUnknown:
		if x.Value == nil {
			return nil
		}
		v, has := fr.env[x.Value]
		if !has {
			if c, isC := x.Value.(*ssa.Const); isC {
				v = in.constVal(c)
			} else {
				return nil
			}
		}
		t, isT := v.(*Term)
		if !isT || t.K != KBV {
			return nil
		}
		_, signed, _ := intWidth(x.Value.Type())
		if signed {
			return p.sextT(t, tripW)
		}
		return p.zext(t, tripW)
	case *loop.SCEVGenericExpr:
		a, b := in.evalSCEVbig(p, fr, x.X, ok), in.evalSCEVbig(p, fr, x.Y, ok)
		if a == nil || b == nil {
			return nil
		}
		switch x.Op {
		case token.ADD:
			return p.bvBin("bvadd", a, b)
		case token.SUB:
			return p.bvBin("bvsub", a, b)
		case token.MUL:
			return p.bvBin("bvmul", a, b)
		case token.QUO:
			*ok = p.and(*ok, p.not(p.bvCmp("=", b, bigToBV(tripW, big.NewInt(0)))))
			return p.bvBin("bvsdiv", a, b)
		}
		return nil
	case *loop.SCEVMax:
		a, b := in.evalSCEVbig(p, fr, x.X, ok), in.evalSCEVbig(p, fr, x.Y, ok)
		if a == nil || b == nil {
			return nil
		}
		return p.ite(p.bvCmp("bvsgt", a, b), a, b)
	case *loop.SCEVAddRec:
		return nil
	}
	return nil
}

var _ = types.Typ
