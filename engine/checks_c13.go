package main

import (
	"fmt"
	"go/types"
	"math"
	"strconv"
	"strings"

	"golang.org/x/tools/go/ssa"
)

const llmPkg = repoMod + "/internal/llm"

type bodyModel struct{ k int }

func (b *bodyModel) Invoke(in *Interp, p *Path, method string, args []Val) Val {
	switch method {
	case "Close":
		return IfaceVal{}
	}
	p.end("unsupported", "response body method "+method)
	return nil
}

type ctxModel struct{}

func (c *ctxModel) Invoke(in *Interp, p *Path, method string, args []Val) Val {
	switch method {
	case "Done":
		return &Pointer{model: &OpaqueVal{name: "chan"}}
	case "Err":
		return IfaceVal{}
	}
	p.end("unsupported", "context method "+method)
	return nil
}

func fieldIndex(t types.Type, name string) int {
	st := t.Underlying().(*types.Struct)
	for i := 0; i < st.NumFields(); i++ {
		if st.Field(i).Name() == name {
			return i
		}
	}
	return -1
}

func derefType(t types.Type) types.Type {
	if pt, ok := t.Underlying().(*types.Pointer); ok {
		return pt.Elem()
	}
	return t
}

func bytesOf(s string) SliceVal { return strToSlice(concStr(s)) }

func concBytes(p *Path, in *Interp, v Val) (string, bool) {
	sl, ok := v.(SliceVal)
	if !ok {
		return "", false
	}
	if sl.back == nil {
		return "", true
	}
	return in.bytesToString(p, sl).conc()
}

func registerHTTPModels(in *Interp) {
	vxExtra["vxHTTPScript"] = func(in *Interp, p *Path, fr *Frame, a []Val, s ssa.CallInstruction) Val {
		p.stubs["http.script"] = a[0]
		p.stubs["http.k"] = mkInt(0)
		return nil
	}
	vxExtra["vxSentinelAnswer"] = func(in *Interp, p *Path, fr *Frame, a []Val, s ssa.CallInstruction) Val {
		p.stubs["sent.parses"], p.stubs["sent.safe"] = a[0], a[1]
		return nil
	}
	vxExtra["vxFinalAnswer"] = func(in *Interp, p *Path, fr *Frame, a []Val, s ssa.CallInstruction) Val {
		p.stubs["final.parses"], p.stubs["final.verdict"], p.stubs["final.evidence"] = a[0], a[1], a[2]
		return nil
	}
	vxExtra["vxCallOutcomes"] = func(in *Interp, p *Path, fr *Frame, a []Val, s ssa.CallInstruction) Val {
		p.stubs["call.gotS"], p.stubs["call.gotF"] = a[0], a[1]
		p.stubs["call.n"] = mkInt(0)
		return nil
	}
	vxExtra["vxRequestsSent"] = func(in *Interp, p *Path, fr *Frame, a []Val, s ssa.CallInstruction) Val {
		return p.stubs["http.k"]
	}
	vxExtra["vxExpectedText"] = func(in *Interp, p *Path, fr *Frame, a []Val, s ssa.CallInstruction) Val { return concStr("TEXT") }
	vxExtra["vxItemText"] = func(in *Interp, p *Path, fr *Frame, a []Val, s ssa.CallInstruction) Val {
		if p.branch(asTerm(a[0])) {
			return concStr("TEXT")
		}
		return concStr("DRAFT")
	}
	vxExtra["vxFinalTrailingData"] = func(in *Interp, p *Path, fr *Frame, a []Val, s ssa.CallInstruction) Val {
		p.stubs["final.trailing"] = a[0]
		return nil
	}
	vxExtra["vxAPIBase"] = func(in *Interp, p *Path, fr *Frame, a []Val, s ssa.CallInstruction) Val { return concStr("http://vx") }
	vxExtra["vxStopServer"] = noop
	vxExtra["vxAsciiText"] = func(in *Interp, p *Path, fr *Frame, a []Val, s ssa.CallInstruction) Val {
		return byteClass(p, a[0].(StringVal), func(b *Term) *Term { return inRange(p, b, 0x20, 0x7e) })
	}
	vxExtra["vxContainsFold"] = func(in *Interp, p *Path, fr *Frame, a []Val, s ssa.CallInstruction) Val {
		return p.strContains(p.strToLower(a[0].(StringVal)), a[1].(StringVal))
	}
	I := in.intr
	I["context.Background"] = func(in *Interp, p *Path, fr *Frame, a []Val, s ssa.CallInstruction) Val {
		return IfaceVal{t: errModelType, v: &Pointer{model: &ctxModel{}}}
	}
	I["context.WithTimeout"] = func(in *Interp, p *Path, fr *Frame, a []Val, s ssa.CallInstruction) Val {
		return TupleVal{IfaceVal{t: errModelType, v: &Pointer{model: &ctxModel{}}}, FuncVal{native: noop}}
	}
	I["math.Pow"] = func(in *Interp, p *Path, fr *Frame, a []Val, s ssa.CallInstruction) Val {
		x, y := asTerm(a[0]), asTerm(a[1])
		if x.C && y.C {
			return mkF64(math.Pow(x.F, y.F))
		}
		p.end("unsupported", "math.Pow of symbolic value")
		return nil
	}
	I["encoding/json.Marshal"] = func(in *Interp, p *Path, fr *Frame, a []Val, s ssa.CallInstruction) Val {
		return TupleVal{bytesOf("JSON"), IfaceVal{}}
	}
	I["encoding/json.MarshalIndent"] = func(in *Interp, p *Path, fr *Frame, a []Val, s ssa.CallInstruction) Val {
		// an injective tag around the first string field: "<J:" + field + ">"
		iv := a[0].(IfaceVal)
		msg := concStr("")
		if sv, ok := iv.v.(*StructVal); ok {
			for _, f := range sv.f {
				if st, ok := f.(StringVal); ok {
					msg = st
					break
				}
			}
		}
		out := p.strConcat(p.strConcat(concStr("<J:"), msg), concStr(">"))
		return TupleVal{strToSlice(out), IfaceVal{}}
	}
	I["net/url.Parse"] = func(in *Interp, p *Path, fr *Frame, a []Val, s ssa.CallInstruction) Val {
		rt := s.Common().StaticCallee().Signature.Results().At(0).Type()
		return TupleVal{&Pointer{obj: &Obj{val: zero(derefType(rt))}}, IfaceVal{}}
	}
	I["(*net/url.URL).String"] = func(in *Interp, p *Path, fr *Frame, a []Val, s ssa.CallInstruction) Val {
		return concStr("http://vx/responses")
	}
	I["net/http.NewRequestWithContext"] = func(in *Interp, p *Path, fr *Frame, a []Val, s ssa.CallInstruction) Val {
		rt := s.Common().StaticCallee().Signature.Results().At(0).Type()
		return TupleVal{&Pointer{obj: &Obj{val: zero(derefType(rt))}}, IfaceVal{}}
	}
	I["(net/http.Header).Set"] = noop
	I["io.LimitReader"] = func(in *Interp, p *Path, fr *Frame, a []Val, s ssa.CallInstruction) Val { return a[0] }
	script := func(p *Path, k int) *StructVal {
		sl, ok := p.stubs["http.script"].(SliceVal)
		if !ok {
			p.end("unsupported", "HTTP exchange without vxHTTPScript")
		}
		if k >= sl.concLen() {
			p.end("unsupported", "HTTP script too short for the requests the client sends")
		}
		return sl.elems()[k].(*StructVal)
	}
	I["(*net/http.Client).Do"] = func(in *Interp, p *Path, fr *Frame, a []Val, s ssa.CallInstruction) Val {
		kt := p.stubs["http.k"].(*Term)
		k := int(kt.U)
		p.stubs["http.k"] = mkInt(int64(k + 1))
		ex := script(p, k)
		rt := s.Common().StaticCallee().Signature.Results().At(0).Type()
		if p.branch(asTerm(ex.f[0])) {
			return TupleVal{&Pointer{}, in.mkErr(concStr("connection reset"), nil, "transport")}
		}
		rs := zero(derefType(rt)).(*StructVal)
		rs.f[fieldIndex(derefType(rt), "StatusCode")] = asTerm(ex.f[2])
		rs.f[fieldIndex(derefType(rt), "Body")] = IfaceVal{t: errModelType, v: &Pointer{model: &bodyModel{k: k}}}
		return TupleVal{&Pointer{obj: &Obj{val: rs}}, IfaceVal{}}
	}
	I["io.ReadAll"] = func(in *Interp, p *Path, fr *Frame, a []Val, s ssa.CallInstruction) Val {
		iv, _ := a[0].(IfaceVal)
		pt, _ := iv.v.(*Pointer)
		bm, ok := pt.model.(*bodyModel)
		if !ok {
			p.end("unsupported", "io.ReadAll on an unmodelled reader")
		}
		ex := script(p, bm.k)
		if p.branch(asTerm(ex.f[1])) {
			return TupleVal{SliceVal{n: mkInt(0)}, in.mkErr(concStr("unexpected EOF"), nil, "read")}
		}
		return TupleVal{bytesOf("BODY:" + strconv.Itoa(bm.k)), IfaceVal{}}
	}
	I["strings.NewReader"] = func(in *Interp, p *Path, fr *Frame, a []Val, s ssa.CallInstruction) Val {
		return &Pointer{model: &bytesReader{data: strToSlice(a[0].(StringVal))}}
	}
	I["encoding/json.NewDecoder"] = func(in *Interp, p *Path, fr *Frame, a []Val, s ssa.CallInstruction) Val {
		return &Pointer{model: &gobDec{r: a[0]}}
	}
	I["(*encoding/json.Decoder).DisallowUnknownFields"] = noop
	I["(*encoding/json.Decoder).Decode"] = func(in *Interp, p *Path, fr *Frame, a []Val, s ssa.CallInstruction) Val {
		dec := a[0].(*Pointer).model.(*gobDec)
		rv, _ := dec.r.(IfaceVal)
		pt, _ := rv.v.(*Pointer)
		br, ok := pt.model.(*bytesReader)
		if !ok {
			p.end("unsupported", "json.Decoder over an unmodelled reader")
		}
		// a Decoder decodes the FIRST JSON value of the stream and leaves the rest unread
		p.stubs["json.firstValueOnly"] = termTrue
		r := in.intr["encoding/json.Unmarshal"](in, p, fr, []Val{br.data, a[1]}, s)
		delete(p.stubs, "json.firstValueOnly")
		return r
	}
	I["encoding/json.Unmarshal"] = func(in *Interp, p *Path, fr *Frame, a []Val, s ssa.CallInstruction) Val {
		data, ok := concBytes(p, in, a[0])
		if !ok {
			p.end("unsupported", "json.Unmarshal of symbolic bytes")
		}
		dst := a[1].(IfaceVal)
		ptr := dst.v.(*Pointer)
		et := derefType(dst.t)
		fail := in.mkErr(concStr("invalid character"), nil, "json")
		tname := et.String()
		switch {
		case strings.HasPrefix(data, "BODY:") && strings.HasSuffix(tname, "OpenAIResponsesResponse"):
			k, _ := strconv.Atoi(data[5:])
			ex := script(p, k)
			if !p.branch(asTerm(ex.f[3])) {
				return fail
			}
			n := p.concretize(asTerm(ex.f[4]), 0, 2)
			itemsT := et.Underlying().(*types.Struct).Field(0).Type().Underlying().(*types.Slice).Elem()
			var items []Val
			roles := []string{"assistant", "model", "user", "developer"}
			for i := 0; i < n; i++ {
				it := zero(itemsT).(*StructVal)
				it.f[fieldIndex(itemsT, "Type")] = concStr("message")
				r := p.concretize(asTerm(ex.f[5].(*ArrayVal).e[i]), 0, 3)
				it.f[fieldIndex(itemsT, "Role")] = concStr(roles[r%4])
				it.f[fieldIndex(itemsT, "Content")] = bytesOf(fmt.Sprintf("CONTENT:%d:%d:%t", k, i, i == n-1))
				items = append(items, it)
			}
			res := zero(et).(*StructVal)
			res.f[0] = newSlice(items)
			ptr.store(res)
			return IfaceVal{}
		case strings.HasPrefix(data, "CONTENT:"):
			parts := strings.Split(data, ":")
			k, _ := strconv.Atoi(parts[1])
			i, _ := strconv.Atoi(parts[2])
			ex := script(p, k)
			kind := p.concretize(asTerm(ex.f[6].(*ArrayVal).e[i]), 0, 2)
			itemText := "TEXT" // the final answer sits in the last item; an earlier item carries a draft
			if len(parts) > 3 && parts[3] == "false" {
				itemText = "DRAFT"
			}
			if isString(et) {
				if kind != 0 {
					return fail
				}
				ptr.store(concStr(itemText))
				return IfaceVal{}
			}
			if sl, ok := et.Underlying().(*types.Slice); ok {
				if kind != 1 {
					return fail
				}
				pt := p.concretize(asTerm(ex.f[7].(*ArrayVal).e[i]), 0, 2)
				part := zero(sl.Elem()).(*StructVal)
				part.f[fieldIndex(sl.Elem(), "Type")] = concStr([]string{"output_text", "text", "other"}[pt%3])
				part.f[fieldIndex(sl.Elem(), "Text")] = concStr(itemText)
				ptr.store(newSlice([]Val{part}))
				return IfaceVal{}
			}
			return fail
		case data == "TEXT" && strings.HasSuffix(tname, "SentinelResponse"):
			if !p.branch(asTerm(p.stubs["sent.parses"])) {
				return fail
			}
			res := zero(et).(*StructVal)
			res.f[fieldIndex(et, "Safe")] = p.stubs["sent.safe"]
			res.f[fieldIndex(et, "Analysis")] = concStr("a")
			ptr.store(res)
			return IfaceVal{}
		case data == "TEXT" && strings.HasSuffix(tname, "LLMResult"):
			if !p.branch(asTerm(p.stubs["final.parses"])) {
				return fail
			}
			if tr, ok := p.stubs["final.trailing"].(*Term); ok && p.stubs["json.firstValueOnly"] == nil {
				if p.branch(tr) {
					return fail // json.Unmarshal rejects data after the top-level value
				}
			}
			res := zero(et).(*StructVal)
			res.f[fieldIndex(et, "Verdict")] = p.stubs["final.verdict"]
			res.f[fieldIndex(et, "Evidence")] = p.stubs["final.evidence"]
			ptr.store(res)
			return IfaceVal{}
		}
		return fail
	}
}

func auditStubs() map[string]Intrinsic {
	return map[string]Intrinsic{
		cliPkg + ".SandboxExec": func(in *Interp, p *Path, fr *Frame, a []Val, s ssa.CallInstruction) Val {
			if p.branch(asTerm(p.stubs["audit.sandboxFails"])) {
				return in.mkErr(concStr("sandbox failed"), nil, "sandbox")
			}
			return IfaceVal{}
		},
		"encoding/json.Unmarshal": func(in *Interp, p *Path, fr *Frame, a []Val, s ssa.CallInstruction) Val {
			dst := a[1].(IfaceVal)
			et := derefType(dst.t)
			if !strings.HasSuffix(et.String(), "DiffOutput") {
				p.end("unsupported", "json.Unmarshal into "+et.String()+" in the audit harness")
			}
			if !p.branch(asTerm(p.stubs["audit.parses"])) {
				return in.mkErr(concStr("invalid character"), nil, "json")
			}
			res := zero(et).(*StructVal)
			fi := fieldIndex(et, "Functions")
			ft := et.Underlying().(*types.Struct).Field(fi).Type().Underlying().(*types.Slice).Elem()
			var fns []Val
			for k, key := range []string{"audit.risk0", "audit.risk1"} {
				f := zero(ft).(*StructVal)
				f.f[fieldIndex(ft, "Function")] = concStr(fmt.Sprintf("f%d", k))
				f.f[fieldIndex(ft, "RiskScore")] = p.stubs[key]
				f.f[fieldIndex(ft, "AddedOps")] = strSliceVal([]StringVal{concStr("call")})
				fns = append(fns, f)
			}
			res.f[fi] = newSlice(fns)
			dst.v.(*Pointer).store(res)
			return IfaceVal{}
		},
		llmPkg + ".CallLLM": func(in *Interp, p *Path, fr *Frame, a []Val, s ssa.CallInstruction) Val {
			rt := s.Common().StaticCallee().Signature.Results().At(0).Type()
			res := zero(rt).(*StructVal)
			if p.branch(asTerm(p.stubs["audit.callFails"])) {
				res.f[0] = concStr("ERROR")
				return TupleVal{res, in.mkErr(concStr("provider failed"), nil, "provider")}
			}
			v := p.stubs["audit.verdict"].(StringVal)
			// contract of CallLLM on success: the verdict's upper-casing is on the whitelist
			up := p.strToUpper(v)
			p.assumeAllASCII(v)
			p.assume(p.orN(p.strEq(up, concStr("MATCH")), p.strEq(up, concStr("SUSPICIOUS")), p.strEq(up, concStr("LIE"))))
			if r, _ := p.query(false); r == "unsat" {
				p.end("infeasible", "verdict outside CallLLM's contract")
			}
			res.f[0] = v
			res.f[1] = concStr("evidence")
			return TupleVal{res, IfaceVal{}}
		},
	}
}

func init() {
	vxExtra["vxAuditScenario"] = func(in *Interp, p *Path, fr *Frame, a []Val, s ssa.CallInstruction) Val {
		p.stubs["audit.sandboxFails"], p.stubs["audit.parses"] = a[0], a[1]
		p.stubs["audit.risk0"], p.stubs["audit.risk1"] = a[2], a[3]
		p.stubs["audit.callFails"], p.stubs["audit.verdict"] = a[4], a[5]
		return nil
	}
	vxExtra["vxVerdictBytes"] = func(in *Interp, p *Path, fr *Frame, a []Val, s ssa.CallInstruction) Val {
		return byteClass(p, a[0].(StringVal), func(b *Term) *Term { return inRange(p, b, 0x20, 0x7e) })
	}
	checks["C13"] = func(c *CheckCtx) {
		params := map[string]int64{"exchanges": 8, "verdictlen": 6, "evidencelen": 15, "msglen": 4}
		if c.Tier == "thorough" {
			params = map[string]int64{"exchanges": 8, "verdictlen": 10, "evidencelen": 18, "msglen": 8}
		}
		stubs := map[string]Intrinsic{
			llmPkg + ".getSharedClient": func(in *Interp, p *Path, fr *Frame, a []Val, s ssa.CallInstruction) Val {
				return &Pointer{model: &OpaqueVal{name: "http.Client"}}
			},
			llmPkg + ".cleanJSONMarkdown": func(in *Interp, p *Path, fr *Frame, a []Val, s ssa.CallInstruction) Val { return a[0] },
		}
		contract := map[string]Intrinsic{}
		for k, v := range stubs {
			contract[k] = v
		}
		contract[llmPkg+".executeOpenAIRaw"] = func(in *Interp, p *Path, fr *Frame, a []Val, s ssa.CallInstruction) Val {
			// contract (proved by VerifC13_RetryLoop): the n-th logical call delivers the provider's text or fails
			n := int(p.stubs["call.n"].(*Term).U)
			p.stubs["call.n"] = mkInt(int64(n + 1))
			key := "call.gotS"
			if n > 0 {
				key = "call.gotF"
			}
			if p.branch(asTerm(p.stubs[key])) {
				return TupleVal{concStr("TEXT"), IfaceVal{}}
			}
			return TupleVal{concStr(""), in.mkErr(concStr("retries exhausted"), nil, "provider")}
		}
		cfgs := []*HarnessCfg{
			{Name: "VerifC13_RetryLoop", Pkg: llmPkg, Solver: "z3", Params: params, Stubs: stubs, MaxPaths: 400000},
			{Name: "VerifC13_CallLLM", Pkg: llmPkg, Solver: "z3", Params: params, Stubs: contract, MaxPaths: 400000},
			{Name: "VerifC13_Envelope", Pkg: llmPkg, Solver: "z3", Params: params, Stubs: stubs},
			{Name: "VerifC13_RunAudit", Pkg: cliPkg, Solver: "z3", Stubs: auditStubs(), EngineReplay: true},
		}
		c.Assumptions = append(c.Assumptions,
			"provider = a script of 8 HTTP exchanges (2 calls x 4 attempts), each with symbolic transport failure, truncated body, status in [100,999], decodability, 0-2 items with roles from {assistant,model,user,developer} and content forms {string, parts, neither}; answers: sentinel parses?/safe?, final parses?/verdict (<=6, thorough 10 printable ASCII bytes)/evidence (<=15, thorough 18)",
			"net/http, encoding/json, context, regexp are stubbed: json.Unmarshal fills the target from the script; cleanJSONMarkdown is the identity (fence stripping not claimed); json.MarshalIndent is an injective tag of the commit message (escaping is the standard library's)",
			"OpenAI-style provider path only (the Gemini client goes through the genai SDK and is not encoded); commit messages <= 4 (8) ASCII bytes, so the 2000-rune truncation is outside the bound",
			"cli.RunAudit's exit-status switch is executed with SandboxExec, the JSON decoding of the diff output (two functions with symbolic risk scores) and llm.CallLLM replaced by stubs/contract; it cannot be replayed natively (real sandbox and provider) and is confirmed by concrete re-execution of the SSA")
		c.runModeT([]string{"internal/llm", "internal/cli"}, cfgs)
	}
}
