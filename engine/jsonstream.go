package main

// A token-level model of encoding/json's streaming Decoder over a file, used by the C18 migration
// harness. The harness describes the document as a list of tokens
//     { } [ ]   key:<name>   sig (a detection.Signature object)   bad (a value of the wrong type)
//     val (an atomic value)
// and a truncation point (cut, mid): tokens [0,cut) are completely present; with mid, the token at
// index cut is present in part (only meaningful for key/sig/bad/val tokens). The model answers
// Token / More / Decode the way the real decoder does on the text rendered from those tokens
// (separators are rendered correctly, so the only anomalies are truncation and wrong-typed values):
//   More   : true iff a further byte exists and it is not ']' or '}'
//   Token  : next delimiter / key / atomic value; io.EOF at a clean end; io.ErrUnexpectedEOF inside
//            a partial token
//   Decode : consumes one value; type error for a value of the wrong type (the value is consumed);
//            io.ErrUnexpectedEOF inside a partial value; io.EOF at a clean end; syntax error on a
//            closing delimiter
// Natively the harness renders the same tokens into a real file (the replay runs the real decoder);
// the selftest replays solver-chosen witnesses of every outcome natively to validate the model.

import (
	"go/types"

	"golang.org/x/tools/go/ssa"
)

type jtok struct {
	kind string
	name string
	val  Val
}

type jsonDoc struct {
	toks []jtok
	cut  int
	mid  bool
	path string
}

type jsonTokDec struct {
	doc *jsonDoc
	pos int
}

func (d *jsonDoc) partialAt(i int) bool {
	if !d.mid || i != d.cut || i >= len(d.toks) {
		return false
	}
	switch d.toks[i].kind {
	case "key", "sig", "bad", "val":
		return true
	}
	return false
}

func jsonDocOf(p *Path) *jsonDoc {
	d, ok := p.stubs["jsondoc"].(*jsonDoc)
	if !ok {
		d = &jsonDoc{path: "vx-input.json"}
		p.stubs["jsondoc"] = d
	}
	return d
}

func (in *Interp) ioErr(p *Path, name string) Val {
	pk := in.prog.ImportedPackage("io")
	if pk == nil {
		p.end("unsupported", "io package not loaded")
	}
	return in.global(p, pk.Var(name)).val
}

func registerJSONStream(in *Interp) {
	add := func(kind string) Intrinsic {
		return func(in *Interp, p *Path, fr *Frame, a []Val, s ssa.CallInstruction) Val {
			t := jtok{kind: kind}
			switch kind {
			case "delim":
				t.kind = argStr(p, a[0])
			case "key":
				t.name = argStr(p, a[0])
			case "sig":
				t.val = deepCopy(a[0], map[*Obj]*Obj{})
			}
			d := jsonDocOf(p)
			d.toks = append(d.toks, t)
			return nil
		}
	}
	vxExtra["vxJSONReset"] = func(in *Interp, p *Path, fr *Frame, a []Val, s ssa.CallInstruction) Val {
		delete(p.stubs, "jsondoc")
		return nil
	}
	vxExtra["vxJSONDelim"] = add("delim")
	vxExtra["vxJSONKey"] = add("key")
	vxExtra["vxJSONSig"] = add("sig")
	vxExtra["vxJSONBad"] = add("bad")
	vxExtra["vxJSONVal"] = add("val")
	vxExtra["vxJSONLen"] = func(in *Interp, p *Path, fr *Frame, a []Val, s ssa.CallInstruction) Val {
		return mkInt(int64(len(jsonDocOf(p).toks)))
	}
	vxExtra["vxJSONWrite"] = func(in *Interp, p *Path, fr *Frame, a []Val, s ssa.CallInstruction) Val {
		d := jsonDocOf(p)
		d.cut = p.concretize(asTerm(a[0]), 0, len(d.toks))
		d.mid = p.branch(asTerm(a[1]))
		return concStr(d.path)
	}
	vxExtra["vxOutPath"] = func(in *Interp, p *Path, fr *Frame, a []Val, s ssa.CallInstruction) Val {
		return concStr("vx-export.json")
	}
	vxExtra["vxExported"] = func(in *Interp, p *Path, fr *Frame, a []Val, s ssa.CallInstruction) Val {
		v, ok := p.stubs["json.exported"].(IfaceVal)
		if !ok {
			p.end("unsupported", "vxExported before any export")
		}
		st := v.v.(*StructVal)
		return st.f[fieldIndex(v.t, "Signatures")]
	}
}

func jsonStreamStubs() map[string]Intrinsic {
	S := map[string]Intrinsic{}
	S["os.Open"] = func(in *Interp, p *Path, fr *Frame, a []Val, s ssa.CallInstruction) Val {
		name := argStr(p, a[0])
		if name != jsonDocOf(p).path {
			return TupleVal{&Pointer{}, in.mkErr(concStr("open: no such file or directory"), nil, "notexist")}
		}
		return TupleVal{&Pointer{model: &osFile{name: name}}, IfaceVal{}}
	}
	S["(*os.File).Close"] = retNilErr
	S["encoding/json.NewDecoder"] = func(in *Interp, p *Path, fr *Frame, a []Val, s ssa.CallInstruction) Val {
		iv, _ := a[0].(IfaceVal)
		pt, _ := iv.v.(*Pointer)
		if pt == nil || pt.model == nil {
			p.end("unsupported", "json.NewDecoder over an unmodelled reader")
		}
		if _, ok := pt.model.(*osFile); !ok {
			p.end("unsupported", "json.NewDecoder over an unmodelled reader")
		}
		return &Pointer{model: &jsonTokDec{doc: jsonDocOf(p)}}
	}
	decOf := func(p *Path, v Val) *jsonTokDec {
		pt, _ := v.(*Pointer)
		if pt == nil || pt.model == nil {
			p.end("panic", "nil *json.Decoder")
		}
		d, ok := pt.model.(*jsonTokDec)
		if !ok {
			p.end("unsupported", "unmodelled json.Decoder")
		}
		return d
	}
	S["(*encoding/json.Decoder).More"] = func(in *Interp, p *Path, fr *Frame, a []Val, s ssa.CallInstruction) Val {
		d := decOf(p, a[0])
		if d.pos < d.doc.cut {
			k := d.doc.toks[d.pos].kind
			return mkBool(k != "]" && k != "}")
		}
		return mkBool(d.doc.partialAt(d.pos))
	}
	S["(*encoding/json.Decoder).Token"] = func(in *Interp, p *Path, fr *Frame, a []Val, s ssa.CallInstruction) Val {
		d := decOf(p, a[0])
		if d.pos >= d.doc.cut {
			if d.doc.partialAt(d.pos) {
				return TupleVal{IfaceVal{}, in.ioErr(p, "ErrUnexpectedEOF")}
			}
			return TupleVal{IfaceVal{}, in.ioErr(p, "EOF")}
		}
		t := d.doc.toks[d.pos]
		d.pos++
		str := types.Typ[types.String]
		switch t.kind {
		case "{", "}", "[", "]":
			jp := in.prog.ImportedPackage("encoding/json")
			dt := jp.Type("Delim").Type()
			return TupleVal{IfaceVal{t: dt, v: mkBV(32, uint64(t.kind[0]))}, IfaceVal{}}
		case "key":
			return TupleVal{IfaceVal{t: str, v: concStr(t.name)}, IfaceVal{}}
		case "val":
			return TupleVal{IfaceVal{t: str, v: concStr("v")}, IfaceVal{}}
		case "bad":
			return TupleVal{IfaceVal{t: str, v: concStr("bad")}, IfaceVal{}}
		}
		p.end("unsupported", "json.Decoder.Token descending into a signature object")
		return nil
	}
	S["(*encoding/json.Decoder).Decode"] = func(in *Interp, p *Path, fr *Frame, a []Val, s ssa.CallInstruction) Val {
		d := decOf(p, a[0])
		if d.pos >= d.doc.cut {
			if d.doc.partialAt(d.pos) {
				return in.ioErr(p, "ErrUnexpectedEOF")
			}
			return in.ioErr(p, "EOF")
		}
		t := d.doc.toks[d.pos]
		dst := a[1].(IfaceVal)
		ptr := dst.v.(*Pointer)
		et := derefType(dst.t)
		_, intoAny := et.Underlying().(*types.Interface)
		switch t.kind {
		case "sig":
			d.pos++
			if intoAny {
				ptr.store(IfaceVal{t: types.Typ[types.String], v: concStr("object")})
				return IfaceVal{}
			}
			if _, isStruct := et.Underlying().(*types.Struct); !isStruct {
				return in.mkErr(concStr("json: cannot unmarshal object"), nil, "json")
			}
			ptr.store(deepCopy(t.val, map[*Obj]*Obj{}))
			return IfaceVal{}
		case "bad", "val":
			d.pos++
			if intoAny {
				ptr.store(IfaceVal{t: types.Typ[types.String], v: concStr("v")})
				return IfaceVal{}
			}
			return in.mkErr(concStr("json: cannot unmarshal string into Go value"), nil, "json")
		case "]", "}":
			return in.mkErr(concStr("invalid character looking for beginning of value"), nil, "json")
		}
		p.end("unsupported", "json.Decoder.Decode at a "+t.kind+" token")
		return nil
	}
	S["encoding/json.MarshalIndent"] = func(in *Interp, p *Path, fr *Frame, a []Val, s ssa.CallInstruction) Val {
		p.stubs["json.exported"] = a[0]
		return TupleVal{bytesOf("EXPORT"), IfaceVal{}}
	}
	S["os.WriteFile"] = retNilErr
	return S
}
