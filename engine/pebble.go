package main

// Contract model of github.com/cockroachdb/pebble as used by pkg/storage/pebbledb:
// a key/value table with atomic batches, snapshots, ordered bounded iterators, and a
// durable/volatile split for the crash model. What is trusted: that real Pebble implements this
// contract (validated by the self-test against a real in-memory Pebble).

import (
	"os"
	"fmt"
	"go/types"
	"strings"

	"golang.org/x/tools/go/ssa"
)

const pebblePath = "github.com/cockroachdb/pebble"

type kvSlot struct {
	key   StringVal
	val   StringVal
	older []StringVal // values this key held before, overwritten by Set without an intervening Delete (what a SingleDelete can bring back)
}

type batchOp struct {
	kind int // 0 set, 1 delete, 2 delete-range
	key  StringVal
	val  StringVal // value, or end key for delete-range
}

type PebbleDB struct {
	slots    []kvSlot // current (volatile) view
	durable  []kvSlot // what survives a crash
	ghosts   []kvSlot // older values brought back by SingleDelete once the memtable is gone (see commit)
	commits  int
	closed   bool
	readOnly bool
}

type PebbleBatch struct {
	db     *PebbleDB
	ops    []batchOp
	closed bool
}

type PebbleSnap struct {
	slots []kvSlot
}

type PebbleIter struct {
	items []kvSlot
	pos   int
}

type closerModel struct{}

func (c *closerModel) Invoke(in *Interp, p *Path, method string, args []Val) Val {
	if method == "Close" {
		return IfaceVal{}
	}
	p.end("unsupported", "closer method "+method)
	return nil
}

func cloneSlots(s []kvSlot) []kvSlot { return append([]kvSlot(nil), s...) }

func dbOf(p *Path, v Val) *PebbleDB {
	pt, ok := v.(*Pointer)
	if !ok || pt == nil || pt.model == nil {
		p.end("panic", "nil pointer dereference (pebble.DB)")
	}
	db, ok := pt.model.(*PebbleDB)
	if !ok {
		p.end("unsupported", "not a modelled pebble.DB")
	}
	return db
}

func toKey(p *Path, in *Interp, v Val) StringVal {
	s := sliceToStr(p, in, v)
	// detach from the caller's buffer
	return StringVal{b: append([]*Term(nil), s.b...), n: s.n}
}

func (in *Interp) errNotFound(p *Path) Val {
	pk := in.prog.ImportedPackage(pebblePath)
	if pk == nil {
		p.end("unsupported", "pebble package not loaded")
	}
	g := pk.Var("ErrNotFound")
	return in.global(p, g).val
}

// schedule hook: a pending interfering writer may run before any reader-visible DB call
func (in *Interp) interferencePoint(p *Path, fr *Frame, what string) {
	w, ok := p.stubs["interfere.fn"].(FuncVal)
	if !ok || p.stubs["interfere.done"] != nil || p.stubs["interfere.running"] != nil {
		return
	}
	n := 0
	if c, ok := p.stubs["interfere.points"].(*Term); ok {
		n = int(c.U)
	}
	p.stubs["interfere.points"] = mkInt(int64(n + 1))
	if p.vxPickFree(2, "sched:"+what) == 1 {
		p.stubs["interfere.running"] = termTrue
		in.callFunction(p, fr, w, nil, nil)
		delete(p.stubs, "interfere.running")
		p.stubs["interfere.done"] = termTrue
		p.stubs["interfere.at"] = mkInt(int64(n))
	}
}

// vxPickFree: a free choice that is recorded in the replay vector (so a native replay can follow it)
func (p *Path) vxPickFree(n int, tag string) int {
	t := p.vxScalar(KBV, 64, tag)
	if t.C {
		return int(t.U) % n
	}
	p.assume(p.bvCmp("bvult", t, mkInt(int64(n))))
	return p.concretize(t, 0, n-1)
}

func slotFind(p *Path, slots []kvSlot, key StringVal) int {
	for i, s := range slots {
		if p.branch(p.strEq(s.key, key)) {
			return i
		}
	}
	return -1
}

func applyOps(p *Path, slots []kvSlot, ops []batchOp) []kvSlot {
	out := cloneSlots(slots)
	for _, op := range ops {
		switch op.kind {
		case 0:
			if i := slotFind(p, out, op.key); i >= 0 {
				out[i] = kvSlot{key: op.key, val: op.val, older: append(append([]StringVal(nil), out[i].older...), out[i].val)}
			} else {
				out = append(out, kvSlot{key: op.key, val: op.val})
			}
		case 1:
			if i := slotFind(p, out, op.key); i >= 0 {
				out = append(append([]kvSlot(nil), out[:i]...), out[i+1:]...)
			}
		case 3:
			// SingleDelete: for readers of the live database it behaves like Delete (the tombstone shadows
			// every older version while it sits in the memtable); what it does to the durable state is
			// handled in commit (ghosts)
			if i := slotFind(p, out, op.key); i >= 0 {
				out = append(append([]kvSlot(nil), out[:i]...), out[i+1:]...)
			}
		case 2:
			var keep []kvSlot
			for _, s := range out {
				inRange := p.and(p.not(p.strLess(s.key, op.key)), p.strLess(s.key, op.val))
				if !p.branch(inRange) {
					keep = append(keep, s)
				}
			}
			out = keep
		}
	}
	return out
}

// crash model: the process may die just before the c-th commit (counted from 0) is applied
func (db *PebbleDB) commitPoint(in *Interp, p *Path) {
	if c, ok := p.stubs["crash.at"].(*Term); ok && c.C {
		if int(c.U) == db.commits {
			p.stubs["crash.hit"] = termTrue
			panic(pathEnd{"crash", "simulated crash before commit"})
		}
	}
	db.commits++
}

func (db *PebbleDB) commit(in *Interp, p *Path, ops []batchOp, sync bool) {
	db.commitPoint(in, p)
	// SingleDelete cancels only the most recent Set of a key. If the key had been Set more than once
	// without a Delete in between, the older value resurfaces once tombstone and newest Set have been
	// flushed/compacted away - i.e. in the state found after a restart. Such values are kept as
	// ghosts and become part of the durable state (not of the live view).
	cur := db.slots
	for _, op := range ops {
		switch op.kind {
		case 3:
			if i := slotFind(p, cur, op.key); i >= 0 {
				if n := len(cur[i].older); n > 0 {
					db.ghosts = append(db.ghosts, kvSlot{key: cur[i].key, val: cur[i].older[n-1]})
				}
			}
		case 0, 1:
			// a later Set or Delete of the key shadows the ghost for good
			var keep []kvSlot
			for _, g := range db.ghosts {
				if !p.branch(p.strEq(g.key, op.key)) {
					keep = append(keep, g)
				}
			}
			db.ghosts = keep
		}
		cur = applyOps(p, cur, []batchOp{op})
	}
	db.slots = cur
	if sync {
		db.durable = cloneSlots(db.slots)
		for _, g := range db.ghosts {
			if slotFind(p, db.durable, g.key) < 0 {
				db.durable = append(db.durable, g)
			}
		}
	}
}

func isSyncOpt(v Val) bool {
	pt, ok := v.(*Pointer)
	if !ok || pt == nil || pt.model == nil {
		return false
	}
	ov, ok := pt.model.(*OpaqueVal)
	return ok && ov.name == "pebble.Sync"
}

func iterOver(p *Path, in *Interp, slots []kvSlot, optsV Val) *PebbleIter {
	var lo, hi *StringVal
	if pt, ok := optsV.(*Pointer); ok && !pt.isNil() && pt.obj != nil {
		st := pt.load().(*StructVal)
		// IterOptions{LowerBound, UpperBound, ...}: the first two fields
		if sl, ok := st.f[0].(SliceVal); ok && sl.back != nil {
			k := toKey(p, in, sl)
			lo = &k
		}
		if sl, ok := st.f[1].(SliceVal); ok && sl.back != nil {
			k := toKey(p, in, sl)
			hi = &k
		}
	}
	var items []kvSlot
	for _, s := range slots {
		c := termTrue
		if lo != nil {
			c = p.and(c, p.not(p.strLess(s.key, *lo)))
		}
		if hi != nil {
			c = p.and(c, p.strLess(s.key, *hi))
		}
		if p.branch(c) {
			items = append(items, s)
		}
	}
	// ascending key order (Pebble's default comparer is bytewise)
	for i := 1; i < len(items); i++ {
		for j := i; j > 0; j-- {
			if !p.branch(p.strLess(items[j].key, items[j-1].key)) {
				break
			}
			items[j], items[j-1] = items[j-1], items[j]
		}
	}
	return &PebbleIter{items: items, pos: -1}
}

func mkPtr(model interface{}) *Pointer { return &Pointer{model: model} }

func registerPebbleModel(in *Interp) {
	I := in.intr
	name := func(recv, m string) string { return "(*" + pebblePath + "." + recv + ")." + m }
	I[pebblePath+".NewCache"] = func(in *Interp, p *Path, fr *Frame, a []Val, s ssa.CallInstruction) Val {
		return mkPtr(&OpaqueVal{name: "pebble.Cache"})
	}
	I[pebblePath+".Open"] = func(in *Interp, p *Path, fr *Frame, a []Val, s ssa.CallInstruction) Val {
		if db, ok := p.stubs["pebble.db"].(*Pointer); ok {
			return TupleVal{db, IfaceVal{}}
		}
		db := mkPtr(&PebbleDB{})
		p.stubs["pebble.db"] = db
		return TupleVal{db, IfaceVal{}}
	}
	I[name("DB", "Close")] = func(in *Interp, p *Path, fr *Frame, a []Val, s ssa.CallInstruction) Val {
		return IfaceVal{}
	}
	I[name("DB", "Flush")] = retNilErr
	I[name("DB", "Metrics")] = func(in *Interp, p *Path, fr *Frame, a []Val, s ssa.CallInstruction) Val {
		return mkPtr(&OpaqueVal{name: "pebble.Metrics"})
	}
	I[name("Metrics", "DiskSpaceUsage")] = func(in *Interp, p *Path, fr *Frame, a []Val, s ssa.CallInstruction) Val {
		return mkBV(64, 0)
	}
	I[name("DB", "Compact")] = retNilErr
	get := func(slots []kvSlot) Intrinsic {
		return nil
	}
	_ = get
	doGet := func(in *Interp, p *Path, slots []kvSlot, key StringVal) Val {
		if i := slotFind(p, slots, key); i >= 0 {
			v := slots[i].val
			if os.Getenv("VERIF_DEBUG") == "2" {
				k, _ := key.conc()
				sk, _ := slots[i].key.conc()
				fmt.Fprintf(os.Stderr, "   GET key=%q n=%s cap=%d -> slot %d key=%q n=%s eq=%s\n", k, key.n.String(), len(key.b), i, sk, slots[i].key.n.String(), truncate(p.strEq(slots[i].key, key).String(), 400))
			}
			return TupleVal{strToSlice(StringVal{b: append([]*Term(nil), v.b...), n: v.n}), IfaceVal{t: errModelType, v: mkPtr(&closerModel{})}, IfaceVal{}}
		}
		return TupleVal{SliceVal{n: mkInt(0)}, IfaceVal{}, in.errNotFound(p)}
	}
	I[name("DB", "Get")] = func(in *Interp, p *Path, fr *Frame, a []Val, s ssa.CallInstruction) Val {
		in.interferencePoint(p, fr, "db.Get")
		db := dbOf(p, a[0])
		return doGet(in, p, db.slots, toKey(p, in, a[1]))
	}
	I[name("DB", "Set")] = func(in *Interp, p *Path, fr *Frame, a []Val, s ssa.CallInstruction) Val {
		in.interferencePoint(p, fr, "db.Set") // a concurrent reader may run between a writer's own commits
		db := dbOf(p, a[0])
		db.commit(in, p, []batchOp{{kind: 0, key: toKey(p, in, a[1]), val: toKey(p, in, a[2])}}, isSyncOpt(a[3]))
		return IfaceVal{}
	}
	I[name("DB", "Delete")] = func(in *Interp, p *Path, fr *Frame, a []Val, s ssa.CallInstruction) Val {
		in.interferencePoint(p, fr, "db.Delete")
		db := dbOf(p, a[0])
		db.commit(in, p, []batchOp{{kind: 1, key: toKey(p, in, a[1])}}, isSyncOpt(a[2]))
		return IfaceVal{}
	}
	I[name("DB", "NewBatch")] = func(in *Interp, p *Path, fr *Frame, a []Val, s ssa.CallInstruction) Val {
		return mkPtr(&PebbleBatch{db: dbOf(p, a[0])})
	}
	batchOf := func(p *Path, v Val) *PebbleBatch {
		pt, ok := v.(*Pointer)
		if !ok || pt == nil || pt.model == nil {
			p.end("panic", "nil pointer dereference (pebble.Batch)")
		}
		return pt.model.(*PebbleBatch)
	}
	I[name("Batch", "Set")] = func(in *Interp, p *Path, fr *Frame, a []Val, s ssa.CallInstruction) Val {
		b := batchOf(p, a[0])
		b.ops = append(b.ops, batchOp{kind: 0, key: toKey(p, in, a[1]), val: toKey(p, in, a[2])})
		return IfaceVal{}
	}
	I[name("Batch", "Delete")] = func(in *Interp, p *Path, fr *Frame, a []Val, s ssa.CallInstruction) Val {
		b := batchOf(p, a[0])
		b.ops = append(b.ops, batchOp{kind: 1, key: toKey(p, in, a[1])})
		return IfaceVal{}
	}
	I[name("Batch", "SingleDelete")] = func(in *Interp, p *Path, fr *Frame, a []Val, s ssa.CallInstruction) Val {
		b := batchOf(p, a[0])
		b.ops = append(b.ops, batchOp{kind: 3, key: toKey(p, in, a[1])})
		return IfaceVal{}
	}
	I[name("DB", "SingleDelete")] = func(in *Interp, p *Path, fr *Frame, a []Val, s ssa.CallInstruction) Val {
		in.interferencePoint(p, fr, "db.SingleDelete")
		db := dbOf(p, a[0])
		db.commit(in, p, []batchOp{{kind: 3, key: toKey(p, in, a[1])}}, isSyncOpt(a[2]))
		return IfaceVal{}
	}
	I[name("Batch", "DeleteRange")] = func(in *Interp, p *Path, fr *Frame, a []Val, s ssa.CallInstruction) Val {
		b := batchOf(p, a[0])
		b.ops = append(b.ops, batchOp{kind: 2, key: toKey(p, in, a[1]), val: toKey(p, in, a[2])})
		return IfaceVal{}
	}
	I[name("Batch", "Commit")] = func(in *Interp, p *Path, fr *Frame, a []Val, s ssa.CallInstruction) Val {
		b := batchOf(p, a[0])
		if b.closed {
			p.end("panic", "pebble: batch already closed")
		}
		in.interferencePoint(p, fr, "batch.Commit")
		b.db.commit(in, p, b.ops, isSyncOpt(a[1]))
		b.ops = nil
		return IfaceVal{}
	}
	I[name("Batch", "Close")] = func(in *Interp, p *Path, fr *Frame, a []Val, s ssa.CallInstruction) Val {
		pt, ok := a[0].(*Pointer)
		if ok && !pt.isNil() {
			if b, ok := pt.model.(*PebbleBatch); ok {
				b.closed = true
			}
		}
		return IfaceVal{}
	}
	I[name("Batch", "Len")] = func(in *Interp, p *Path, fr *Frame, a []Val, s ssa.CallInstruction) Val {
		return mkInt(int64(12 + 16*len(batchOf(p, a[0]).ops)))
	}
	I[name("DB", "NewSnapshot")] = func(in *Interp, p *Path, fr *Frame, a []Val, s ssa.CallInstruction) Val {
		in.interferencePoint(p, fr, "db.NewSnapshot")
		return mkPtr(&PebbleSnap{slots: cloneSlots(dbOf(p, a[0]).slots)})
	}
	snapOf := func(p *Path, v Val) *PebbleSnap {
		pt, ok := v.(*Pointer)
		if !ok || pt == nil || pt.model == nil {
			p.end("panic", "nil pointer dereference (pebble.Snapshot)")
		}
		return pt.model.(*PebbleSnap)
	}
	I[name("Snapshot", "Get")] = func(in *Interp, p *Path, fr *Frame, a []Val, s ssa.CallInstruction) Val {
		in.interferencePoint(p, fr, "snap.Get")
		return doGet(in, p, snapOf(p, a[0]).slots, toKey(p, in, a[1]))
	}
	I[name("Snapshot", "Close")] = retNilErr
	I[name("Snapshot", "NewIter")] = func(in *Interp, p *Path, fr *Frame, a []Val, s ssa.CallInstruction) Val {
		in.interferencePoint(p, fr, "snap.NewIter")
		return TupleVal{mkPtr(iterOver(p, in, snapOf(p, a[0]).slots, a[1])), IfaceVal{}}
	}
	I[name("DB", "NewIter")] = func(in *Interp, p *Path, fr *Frame, a []Val, s ssa.CallInstruction) Val {
		in.interferencePoint(p, fr, "db.NewIter")
		return TupleVal{mkPtr(iterOver(p, in, dbOf(p, a[0]).slots, a[1])), IfaceVal{}}
	}
	iterOf := func(p *Path, v Val) *PebbleIter {
		pt, ok := v.(*Pointer)
		if !ok || pt == nil || pt.model == nil {
			p.end("panic", "nil pointer dereference (pebble.Iterator)")
		}
		return pt.model.(*PebbleIter)
	}
	I[name("Iterator", "First")] = func(in *Interp, p *Path, fr *Frame, a []Val, s ssa.CallInstruction) Val {
		it := iterOf(p, a[0])
		it.pos = 0
		return mkBool(len(it.items) > 0)
	}
	I[name("Iterator", "Next")] = func(in *Interp, p *Path, fr *Frame, a []Val, s ssa.CallInstruction) Val {
		it := iterOf(p, a[0])
		it.pos++
		return mkBool(it.pos < len(it.items))
	}
	I[name("Iterator", "Valid")] = func(in *Interp, p *Path, fr *Frame, a []Val, s ssa.CallInstruction) Val {
		it := iterOf(p, a[0])
		return mkBool(it.pos >= 0 && it.pos < len(it.items))
	}
	I[name("Iterator", "Key")] = func(in *Interp, p *Path, fr *Frame, a []Val, s ssa.CallInstruction) Val {
		it := iterOf(p, a[0])
		if it.pos < 0 || it.pos >= len(it.items) {
			return SliceVal{n: mkInt(0)}
		}
		k := it.items[it.pos].key
		return strToSlice(StringVal{b: append([]*Term(nil), k.b...), n: k.n})
	}
	I[name("Iterator", "Value")] = func(in *Interp, p *Path, fr *Frame, a []Val, s ssa.CallInstruction) Val {
		it := iterOf(p, a[0])
		if it.pos < 0 || it.pos >= len(it.items) {
			return SliceVal{n: mkInt(0)}
		}
		v := it.items[it.pos].val
		return strToSlice(StringVal{b: append([]*Term(nil), v.b...), n: v.n})
	}
	I[name("Iterator", "Close")] = retNilErr
	I[name("Iterator", "Error")] = retNilErr

	// ---- gob: an opaque blob that round-trips its payload; first byte 0x7f (never '{')
	I["encoding/gob.NewEncoder"] = func(in *Interp, p *Path, fr *Frame, a []Val, s ssa.CallInstruction) Val {
		return mkPtr(&gobEnc{w: a[0]})
	}
	I["(*encoding/gob.Encoder).Encode"] = func(in *Interp, p *Path, fr *Frame, a []Val, s ssa.CallInstruction) Val {
		enc := a[0].(*Pointer).model.(*gobEnc)
		iv := a[1].(IfaceVal)
		var payload Val
		switch x := iv.v.(type) {
		case *Pointer:
			payload = x.load()
		default:
			payload = copyVal(iv.v)
		}
		n := 0
		if c, ok := p.stubs["gob.ctr"].(*Term); ok {
			n = int(c.U)
		}
		p.stubs["gob.ctr"] = mkInt(int64(n + 1))
		tag := fmt.Sprintf("\x7fGOB:%d", n)
		p.stubs["gob:"+tag] = payload
		// write the blob into the destination (a *bytes.Buffer behind io.Writer)
		wv := enc.w.(IfaceVal)
		buf := wv.v.(*Pointer).sub(0)
		buf.store(in.appendSlice(p, buf.load().(SliceVal), concStr(tag), nil))
		return IfaceVal{}
	}
	I["bytes.NewReader"] = func(in *Interp, p *Path, fr *Frame, a []Val, s ssa.CallInstruction) Val {
		return mkPtr(&bytesReader{data: a[0]})
	}
	I["encoding/gob.NewDecoder"] = func(in *Interp, p *Path, fr *Frame, a []Val, s ssa.CallInstruction) Val {
		return mkPtr(&gobDec{r: a[0]})
	}
	I["(*encoding/gob.Decoder).Decode"] = func(in *Interp, p *Path, fr *Frame, a []Val, s ssa.CallInstruction) Val {
		dec := a[0].(*Pointer).model.(*gobDec)
		rv := dec.r.(IfaceVal)
		br, ok := rv.v.(*Pointer).model.(*bytesReader)
		if !ok {
			p.end("unsupported", "gob decode from an unmodelled reader")
		}
		tag, conc := concBytes(p, in, br.data)
		if !conc {
			if os.Getenv("VERIF_DEBUG") != "" {
				if sl, ok := br.data.(SliceVal); ok {
					st := in.bytesToString(p, sl)
					stk := ""
					for f := fr; f != nil; f = f.caller {
						stk += " < " + f.fn.Name()
					}
					fmt.Fprintf(os.Stderr, "gob decode of symbolic bytes: len=%s cap=%d stack=%s\n", st.n.String(), len(st.b), stk)
					if db, ok := p.stubs["pebble.db"].(*Pointer); ok {
						for _, sl := range db.model.(*PebbleDB).slots {
							k, _ := sl.key.conc()
							fmt.Fprintf(os.Stderr, "   slot key=%q (n=%s) vallen=%s\n", k, sl.key.n.String(), sl.val.n.String())
						}
					}
					for i, b := range st.b {
						if i < 12 {
							fmt.Fprintf(os.Stderr, "  b[%d]=%s\n", i, truncate(b.String(), 300))
						}
					}
				}
			}
			p.end("unsupported", "gob decode of symbolic bytes")
		}
		payload, ok := p.stubs["gob:"+tag]
		if !ok || !strings.HasPrefix(tag, "\x7fGOB:") {
			return in.mkErr(concStr("gob: bad data"), nil, "gob")
		}
		dst := a[1].(IfaceVal).v.(*Pointer)
		// gob omits zero-valued fields from the stream: decoding into a target that already holds
		// data leaves such fields as they are (matters when a decode target is reused)
		dst.store(gobMerge(in, p, dst.load(), copyVal(payload)))
		return IfaceVal{}
	}
	_ = types.Typ
}

type gobEnc struct{ w Val }
type gobDec struct{ r Val }
type bytesReader struct{ data Val }

func pebbleGlobal(g *ssa.Global) Val {
	switch g.String() {
	case pebblePath + ".Sync":
		return &Pointer{model: &OpaqueVal{name: "pebble.Sync"}}
	case pebblePath + ".NoSync":
		return &Pointer{model: &OpaqueVal{name: "pebble.NoSync"}}
	}
	return nil
}

func registerPebbleHarnessHelpers(in *Interp) {
	vxExtra["vxMemOptions"] = func(in *Interp, p *Path, fr *Frame, a []Val, s ssa.CallInstruction) Val { return &Pointer{} }
	vxExtra["vxIDBytes"] = func(in *Interp, p *Path, fr *Frame, a []Val, s ssa.CallInstruction) Val {
		x := a[0].(StringVal)
		r := byteClass(p, x, func(b *Term) *Term { return inRange(p, b, 0x21, 0x7e) })
		return p.and(r, p.not(p.bvCmp("=", x.n, mkInt(0))))
	}
	// hashing is modelled as an injective naming of the pool shapes (the harness only uses pool shapes)
	in.intr[repoMod+"/pkg/detection.GenerateTopologyHash"] = func(in *Interp, p *Path, fr *Frame, a []Val, s ssa.CallInstruction) Val {
		t := a[0].(*Pointer).load().(*StructVal)
		bc := asTerm(t.f[3]) // BlockCount
		if !bc.C {
			p.end("unsupported", "topology hash of a non-pool topology")
		}
		return concStr(fmt.Sprintf("th%d", bc.U))
	}
	in.intr[repoMod+"/pkg/analysis/topology.GenerateFuzzyHash"] = func(in *Interp, p *Path, fr *Frame, a []Val, s ssa.CallInstruction) Val {
		t := a[0].(*Pointer).load().(*StructVal)
		lc := asTerm(t.f[5]) // LoopCount
		if !lc.C {
			p.end("unsupported", "fuzzy hash of a non-pool topology")
		}
		return concStr(fmt.Sprintf("B0L%dBR0P1R1", lc.U))
	}
	in.intr["time.Now"] = func(in *Interp, p *Path, fr *Frame, a []Val, s ssa.CallInstruction) Val {
		return zero(s.Common().StaticCallee().Signature.Results().At(0).Type())
	}
	in.intr["(time.Time).Format"] = func(in *Interp, p *Path, fr *Frame, a []Val, s ssa.CallInstruction) Val {
		return concStr("2026-01-01T00:00:00Z")
	}
}

func init() {
	vxExtra["vxCrashBeforeCommit"] = func(in *Interp, p *Path, fr *Frame, a []Val, s ssa.CallInstruction) Val {
		k := argInt(p, a[0])
		db, ok := p.stubs["pebble.db"].(*Pointer)
		if !ok {
			p.end("unsupported", "vxCrashBeforeCommit before the store is opened")
		}
		p.stubs["crash.at"] = mkInt(int64(db.model.(*PebbleDB).commits + k))
		return nil
	}
	vxExtra["vxRunUntilCrash"] = func(in *Interp, p *Path, fr *Frame, a []Val, s ssa.CallInstruction) (ret Val) {
		depth := p.depth
		defer func() {
			if r := recover(); r != nil {
				pe, ok := r.(pathEnd)
				if !ok || pe.kind != "crash" {
					panic(r)
				}
				p.depth = depth
				ret = termTrue
			}
		}()
		in.callFunction(p, fr, a[0].(FuncVal), nil, s)
		delete(p.stubs, "crash.at")
		return termFalse
	}
	vxExtra["vxReopen"] = func(in *Interp, p *Path, fr *Frame, a []Val, s ssa.CallInstruction) Val {
		delete(p.stubs, "crash.at")
		if db, ok := p.stubs["pebble.db"].(*Pointer); ok {
			m := db.model.(*PebbleDB)
			if p.stubs["crash.hit"] != nil || p.branch(asTerm(a[1])) {
				m.slots = cloneSlots(m.durable) // unsynced commits do not survive
			} else {
				// a clean restart flushes the memtable as well: values cancelled only by SingleDelete resurface
				for _, g := range m.ghosts {
					if slotFind(p, m.slots, g.key) < 0 {
						m.slots = append(m.slots, g)
					}
				}
			}
		}
		return nil
	}
	vxExtra["vxInterfere"] = func(in *Interp, p *Path, fr *Frame, a []Val, s ssa.CallInstruction) Val {
		p.stubs["interfere.fn"] = a[0]
		delete(p.stubs, "interfere.done")
		return nil
	}
	vxExtra["vxInterfered"] = func(in *Interp, p *Path, fr *Frame, a []Val, s ssa.CallInstruction) Val {
		return mkBool(p.stubs["interfere.done"] != nil)
	}
}

// gobMerge returns what a gob decoder leaves in a target holding `old` after decoding `nw`.
func gobMerge(in *Interp, p *Path, old, nw Val) Val {
	os_, ok1 := old.(*StructVal)
	ns, ok2 := nw.(*StructVal)
	if !ok1 || !ok2 {
		return nw
	}
	out := &StructVal{f: make([]Val, len(ns.f))}
	for i := range ns.f {
		if _, isStruct := ns.f[i].(*StructVal); isStruct {
			out.f[i] = gobMerge(in, p, os_.f[i], ns.f[i])
			continue
		}
		oz := isZeroVal(in, p, os_.f[i])
		if oz.C && oz.B {
			out.f[i] = ns.f[i] // target field is zero: the result is the payload's field either way
			continue
		}
		nz := isZeroVal(in, p, ns.f[i])
		if p.branch(nz) {
			out.f[i] = os_.f[i] // field absent from the stream
		} else {
			out.f[i] = ns.f[i]
		}
	}
	return out
}

func isZeroVal(in *Interp, p *Path, v Val) *Term {
	switch x := v.(type) {
	case *Term:
		switch x.K {
		case KBool:
			return p.not(x)
		case KFP:
			return p.fpCmp("fp.eq", x, mkF64(0))
		default:
			return p.bvCmp("=", x, mkBV(x.W, 0))
		}
	case StringVal:
		return p.bvCmp("=", x.n, mkInt(0))
	case SliceVal:
		if x.back == nil {
			return termTrue
		}
		return p.bvCmp("=", x.n, mkInt(0))
	case *Pointer:
		return mkBool(x.isNil())
	case MapVal:
		return mkBool(x.m == nil || len(x.m.keys) == 0)
	case IfaceVal:
		return mkBool(x.t == nil)
	}
	return termFalse
}
