package main

import (
	"fmt"
	"os"

	"golang.org/x/tools/go/ssa"
)

// deterministic-by-identity hash stubs for the self-match lemma: the same topology object hashes
// to the same string (all the lemma needs); nothing is assumed about different topologies.
func hashByIdentity(prefix string) Intrinsic {
	return func(in *Interp, p *Path, fr *Frame, a []Val, s ssa.CallInstruction) Val {
		pt := a[0].(*Pointer)
		return concStr(fmt.Sprintf("%s%p", prefix, pt.obj))
	}
}

func init() {
	vxExtra["vxAsciiLetters"] = func(in *Interp, p *Path, fr *Frame, a []Val, s ssa.CallInstruction) Val {
		return byteClass(p, a[0].(StringVal), func(b *Term) *Term {
			return p.orN(inRange(p, b, 'a', 'z'), inRange(p, b, 'A', 'Z'), p.bvCmp("=", b, mkBV(8, '.')), p.bvCmp("=", b, mkBV(8, '"')))
		})
	}
	checks["C11"] = func(c *CheckCtx) {
		var cfgs []*HarnessCfg
		modes := int64(1)
		if c.Tier == "thorough" {
			modes = 2
		}
		for mode := int64(0); mode < modes; mode++ {
			cfgs = append(cfgs, &HarnessCfg{Name: "VerifC11_ScanDuringWrite", Pkg: pebPkg, Solver: "z3", MaxPaths: 2000000, EngineReplay: true,
				Params: map[string]int64{"mode": mode}, Stubs: map[string]Intrinsic{detPkg + ".MatchSignature": matchSignatureContract}})
			cfgs = append(cfgs, &HarnessCfg{Name: "VerifC11_ScanInsideWrite", Pkg: pebPkg, Solver: "z3", MaxPaths: 2000000, EngineReplay: true,
				Params: map[string]int64{"mode": mode}, Stubs: map[string]Intrinsic{detPkg + ".MatchSignature": matchSignatureContract}})
		}
		c.Assumptions = append(c.Assumptions, pebbleAssumptions...)
		c.Assumptions = append(c.Assumptions,
			"partial: interleavings at the granularity of database API calls - one writer operation (flip a signature to a version with other hashes/entropy, delete it, delete and re-add, rebuild indexes) runs as a block before any one of the reader's snapshot/iterator/get calls (the position is a solver variable); and the dual schedule: the whole scan runs as a block before any one of the writer's own commits (db.Set / db.Delete / batch.Commit), which exposes updates torn over several commits; the reader is ScanTopology or ScanTopologyExact over one signature",
			"detection.MatchSignature is replaced by its contract (a confidence per signature version, NaN or in [0,1])",
			"absence of data races, the JSON store's locking, and interleavings inside a Pebble call are NOT covered; schedules cannot be forced natively, so counterexamples are confirmed by concrete re-execution of the code's SSA")
		c.runModeT([]string{"pkg/storage/pebbledb"}, cfgs)
	}
	checks["C05"] = func(c *CheckCtx) {
		lit, mk, ml := int64(4), int64(2), int64(1)
		if c.Tier == "thorough" {
			lit, mk, ml = 8, 2, 1 // one literal of up to 8 bytes; two literals of up to 4 bytes run as a second configuration below ((5,2,2) exhausted a budget of 400000 paths)
		}
		if v := os.Getenv("VERIF_C05_BOUND"); v != "" { // debugging aid: "lit,keys,lits"
			fmt.Sscanf(v, "%d,%d,%d", &lit, &mk, &ml)
		}
		cfgs := []*HarnessCfg{
			{Name: "VerifC05_SelfMatch", Pkg: detPkg, Solver: "cvc5", OneShot: true, TimeoutMs: 120000, MaxPaths: 400000, Params: map[string]int64{"mode": 0},
				Stubs: map[string]Intrinsic{
					detPkg + ".GenerateTopologyHash":                     hashByIdentity("th"),
					repoMod + "/pkg/analysis/topology.GenerateFuzzyHash": hashByIdentity("fz"),
				}},
			{Name: "VerifC05_SelfMatch", Pkg: detPkg, Solver: "z3", TimeoutMs: 60000, MaxPaths: 400000, Params: map[string]int64{"mode": 1, "litlen": lit, "maxkeys": mk, "maxlits": ml},
				Stubs: map[string]Intrinsic{
					detPkg + ".GenerateTopologyHash":                     hashByIdentity("th"),
					repoMod + "/pkg/analysis/topology.GenerateFuzzyHash": hashByIdentity("fz"),
				}},
			{Name: "VerifC05_StoreRoundTrip", Pkg: pebPkg, Solver: "cvc5", TimeoutMs: 60000, MaxPaths: 400000},
		}
		if c.Tier == "thorough" {
			cfgs = append(cfgs, &HarnessCfg{Name: "VerifC05_SelfMatch", Pkg: detPkg, Solver: "z3", TimeoutMs: 60000, MaxPaths: 400000, Params: map[string]int64{"mode": 1, "litlen": 4, "maxkeys": 2, "maxlits": 2},
				Stubs: map[string]Intrinsic{
					detPkg + ".GenerateTopologyHash":                     hashByIdentity("th"),
					repoMod + "/pkg/analysis/topology.GenerateFuzzyHash": hashByIdentity("fz"),
				}})
		}
		c.Assumptions = append(c.Assumptions, pebbleAssumptions...)
		c.Assumptions = append(c.Assumptions,
			"self-match lemma: counters, flags and entropy symbolic (entropy in [0,8]); up to 2 call-signature keys of 1-2 letters, one string literal of up to 4 (thorough 8) bytes, thorough also two literals of up to 4 bytes, over letters, '.', '\"'; hashing is 'same object => same hash'",
			"store path: pool topologies (concrete shapes) indexed with the real IndexFunction and found again through the Pebble contract model in full and exact mode at a symbolic threshold in (0,1]; the JSON back end's scan path is covered by the C08 harness",
			"that renaming/reformatting leaves the extracted topology unchanged (ExtractTopology over go/ssa) is not encoded: stated gap")
		c.runModeT([]string{"pkg/detection", "pkg/storage/pebbledb"}, cfgs)
	}
}
