package main

import "golang.org/x/tools/go/ssa"

func init() {
	checks["C20"] = func(c *CheckCtx) {
		params := map[string]int64{"maxlen": 8}
		if c.Tier == "thorough" {
			// (10 bytes with a cvc5 cross-check did not finish within 25 minutes once the tenth family was added)
			params = map[string]int64{"maxlen": 9, "fam7sym": 1}
		}
		cfg := &HarnessCfg{Name: "VerifC20_PathGuard", Pkg: repoMod + "/pkg/storage/pebbledb", Solver: "z3", Params: params,
			Stubs: map[string]Intrinsic{
				"github.com/cockroachdb/pebble.Open": func(in *Interp, p *Path, fr *Frame, a []Val, s ssa.CallInstruction) Val {
					p.stubs["open-reached"] = termTrue
					return TupleVal{&Pointer{}, in.mkErr(concStr("vx-open-reached"), nil, "open")}
				},
			}}
		c.Assumptions = append(c.Assumptions,
			"the file system is a symbolic table answering EvalSymlinks/Stat/Getwd per path (ten scenario families: new/existing absolute path without symlinks, symlink leaf, new database under a symlinked parent, '..' after a symlinked directory in absolute and in relative spelling, relative spellings, a missing first component followed by '..', resolution error); symlink targets and working directories are arbitrary clean absolute paths chosen by the solver; the true location is computed by the harness from the scenario, independently of the code",
			"path bytes range over [a-z0-9._/-], paths up to maxlen bytes (coverage.harnesses[].params), new leaf names up to 3 bytes; filepath.Clean/Join/Abs are executed from their own SSA unless the solver proves the argument already clean",
			"refusal is observed as an error whose text contains 'security violation'; pebble.Open is a stub (reaching it means 'not refused')",
			"native replays force ReadOnly so that no database is ever created; a violation that exists only in read-write mode would be reported as unreproduced (inconclusive)")
		c.runModeT([]string{"pkg/storage/pebbledb"}, []*HarnessCfg{cfg})
	}
}
