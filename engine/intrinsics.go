package main

// Engine-native models of library functions and the vx* harness primitives.

import (
	"fmt"
	"go/types"
	"math"
	"sort"
	"strconv"
	"strings"

	"golang.org/x/tools/go/ssa"
)

func modelGlobal(g *ssa.Global) Val { return pebbleGlobal(g) }

func argStr(p *Path, v Val) string {
	s, ok := v.(StringVal)
	if !ok {
		p.end("unsupported", fmt.Sprintf("expected string argument, got %T", v))
	}
	c, ok := s.conc()
	if !ok {
		p.end("unsupported", "expected concrete string argument")
	}
	return c
}

func argInt(p *Path, v Val) int {
	t := asTerm(v)
	if !t.C {
		p.end("unsupported", "expected concrete int argument")
	}
	return int(sext(t.U, t.W))
}

func strSliceVal(ss []StringVal) SliceVal {
	el := make([]Val, len(ss))
	for i, s := range ss {
		el[i] = s
	}
	return newSlice(el)
}

func (p *Path) sliceStrings(v Val) []StringVal {
	s := v.(SliceVal)
	if s.back == nil {
		return nil
	}
	n := s.concLen()
	out := make([]StringVal, n)
	for i, e := range s.elems()[:n] {
		out[i] = e.(StringVal)
	}
	return out
}

func sliceToStr(p *Path, in *Interp, v Val) StringVal {
	switch x := v.(type) {
	case StringVal:
		return x
	case SliceVal:
		if x.back == nil {
			return concStr("")
		}
		return in.bytesToString(p, x)
	}
	p.end("unsupported", fmt.Sprintf("expected string/[]byte, got %T", v))
	return StringVal{}
}

func strToSlice(s StringVal) SliceVal {
	el := make([]Val, len(s.b))
	for i, b := range s.b {
		el[i] = b
	}
	r := newSlice(el)
	r.n = s.n
	return r
}

// vxDeclStr declares a symbolic string of capacity max; exact => length fixed to max.
func (p *Path) vxDeclStr(max int, exact bool, tag string) StringVal {
	var n *Term
	if exact {
		n = mkInt(int64(max))
		// keep the replay vector shape identical: a length slot is still recorded
		lv := p.vxScalar(KBV, 64, tag+".len")
		p.assume(p.bvCmp("=", lv, n))
	} else {
		n = p.vxScalar(KBV, 64, tag+".len")
		if n.C && n.U > uint64(max) {
			n = mkInt(int64(max))
		}
		p.assume(p.bvCmp("bvule", n, mkInt(int64(max))))
	}
	b := make([]*Term, max)
	for i := range b {
		b[i] = p.vxScalar(KBV, 8, fmt.Sprintf("%s[%d]", tag, i))
	}
	return StringVal{b: b, n: n}
}

func (p *Path) vxScalar(k Kind, w int, tag string) *Term {
	if cv := p.ex.cfg.Concrete; cv != nil {
		var u uint64
		if len(p.vx) < len(cv) {
			u = cv[len(p.vx)]
		}
		p.vx = append(p.vx, VxVar{Name: fmt.Sprintf("c%d", len(p.vx)), K: k, W: w, Tag: tag})
		switch k {
		case KBool:
			return mkBool(u != 0)
		case KFP:
			return mkF64(math.Float64frombits(u))
		}
		return mkBV(w, u)
	}
	t := p.fresh("vx", k, w)
	p.vx = append(p.vx, VxVar{Name: t.S, K: k, W: w, Tag: tag})
	return t
}

func (in *Interp) vxCall(p *Path, fr *Frame, name string, args []Val, site ssa.CallInstruction) (Val, bool) {
	switch name {
	case "vxBool":
		return p.vxScalar(KBool, 0, "bool"), true
	case "vxInt", "vxInt64", "vxU64":
		return p.vxScalar(KBV, 64, "int"), true
	case "vxU8":
		return p.vxScalar(KBV, 8, "u8"), true
	case "vxI8":
		return p.vxScalar(KBV, 8, "i8"), true
	case "vxU32":
		return p.vxScalar(KBV, 32, "u32"), true
	case "vxF64":
		return p.vxScalar(KFP, 64, "f64"), true
	case "vxChoice":
		n := argInt(p, args[0])
		t := p.vxScalar(KBV, 64, "choice")
		p.assume(p.bvCmp("bvult", t, mkInt(int64(n))))
		return t, true
	case "vxIntRange":
		lo, hi := argInt(p, args[0]), argInt(p, args[1])
		t := p.vxScalar(KBV, 64, "int")
		p.assume(p.and(p.bvCmp("bvsge", t, mkInt(int64(lo))), p.bvCmp("bvsle", t, mkInt(int64(hi)))))
		return withRange(t, int64(lo), int64(hi)), true
	case "vxF64Range":
		lo, hi := asTerm(args[0]), asTerm(args[1])
		t := p.vxScalar(KFP, 64, "f64")
		p.assume(p.and(p.fpCmp("fp.geq", t, lo), p.fpCmp("fp.leq", t, hi)))
		return t, true
	case "vxStr":
		return p.vxDeclStr(argInt(p, args[0]), false, "str"), true
	case "vxStrN":
		return p.vxDeclStr(argInt(p, args[0]), true, "str"), true
	case "vxBytes":
		return strToSlice(p.vxDeclStr(argInt(p, args[0]), false, "bytes")), true
	case "vxAssume":
		c := asTerm(args[0])
		if c.C {
			if !c.B {
				p.end("infeasible", "assume false")
			}
			return nil, true
		}
		p.assume(c)
		if r, _ := p.query(false); r == "unsat" {
			p.end("infeasible", "assume")
		}
		return nil, true
	case "vxAssert":
		p.vxAssert(argStr(p, args[0]), asTerm(args[1]))
		return nil, true
	case "vxCover":
		p.vxCover(argStr(p, args[0]), asTerm(args[1]))
		return nil, true
	case "vxKnown":
		id := argStr(p, args[0])
		c := asTerm(args[1])
		if _, active := gKnownActive[id]; !active {
			return nil, true
		}
		if old, ok := p.known[id]; ok {
			p.known[id] = p.or(old, c)
		} else {
			p.known[id] = c
		}
		return nil, true
	case "vxParam":
		nm := argStr(p, args[0])
		if v, ok := p.ex.cfg.Params[nm]; ok {
			return mkInt(v), true
		}
		return args[1], true
	case "vxConcretizeLen":
		s, _ := p.concretizeLen(args[0].(StringVal))
		return s, true
	case "vxNote":
		return nil, true
	case "vxSymbolic":
		return termTrue, true
	case "vxPick":
		// free n-way choice (schedule / permutation element); recorded so the replay can follow it
		n := argInt(p, args[0])
		t := p.vxScalar(KBV, 64, "pick")
		p.assume(p.bvCmp("bvult", t, mkInt(int64(n))))
		return mkInt(int64(p.concretize(t, 0, n-1))), true
	case "vxStrEq":
		return p.strEq(args[0].(StringVal), args[1].(StringVal)), true
	case "vxStrLess":
		return p.strLess(args[0].(StringVal), args[1].(StringVal)), true
	case "vxHasPrefix":
		return p.strHasPrefix(args[0].(StringVal), args[1].(StringVal)), true
	case "vxIndexByte":
		return p.strIndex(args[0].(StringVal), StringVal{b: []*Term{asTerm(args[1])}, n: mkInt(1)}), true
	case "vxIte":
		c := asTerm(args[0])
		return p.ite(c, asTerm(args[1]), asTerm(args[2])), true
	case "vxAnd":
		return p.and(asTerm(args[0]), asTerm(args[1])), true
	case "vxOr":
		return p.or(asTerm(args[0]), asTerm(args[1])), true
	case "vxImplies":
		return p.implies(asTerm(args[0]), asTerm(args[1])), true
	case "vxSameF64":
		return p.fpSame(asTerm(args[0]), asTerm(args[1])), true
	case "vxIsNaN":
		return p.fpIsNaN(asTerm(args[0])), true
	}
	if h, ok := vxExtra[name]; ok {
		return h(in, p, fr, args, site), true
	}
	return nil, false
}

var vxExtra = map[string]Intrinsic{}

func noop(in *Interp, p *Path, fr *Frame, args []Val, site ssa.CallInstruction) Val { return nil }

func retNilErr(in *Interp, p *Path, fr *Frame, args []Val, site ssa.CallInstruction) Val {
	return IfaceVal{}
}

// errVal builds an error value carrying a (possibly symbolic) message and an optional wrapped error.
type ErrModel struct {
	msg     StringVal
	wrapped Val
	kind    string
}

func (e *ErrModel) Invoke(in *Interp, p *Path, method string, args []Val) Val {
	switch method {
	case "Error":
		return e.msg
	case "Unwrap":
		if e.wrapped == nil {
			return IfaceVal{}
		}
		return e.wrapped
	}
	p.end("unsupported", "error method "+method)
	return nil
}

func (in *Interp) findMethod(t types.Type, name string) *ssa.Function {
	ms := in.prog.MethodSets.MethodSet(t)
	for i := 0; i < ms.Len(); i++ {
		if ms.At(i).Obj().Name() == name {
			return in.prog.MethodValue(ms.At(i))
		}
	}
	return nil
}

func (in *Interp) errType() types.Type {
	return types.Universe.Lookup("error").Type()
}

func (in *Interp) mkErr(msg StringVal, wrapped Val, kind string) IfaceVal {
	return IfaceVal{t: errModelType, v: &Pointer{model: &ErrModel{msg: msg, wrapped: wrapped, kind: kind}}}
}

var errModelType = types.NewPointer(types.NewNamed(types.NewTypeName(0, nil, "vxError", nil), types.NewStruct(nil, nil), nil))

func errKind(v Val) string {
	iv, ok := v.(IfaceVal)
	if !ok || iv.t == nil {
		return ""
	}
	for {
		pt, ok := iv.v.(*Pointer)
		if !ok || pt == nil {
			if ov, ok := iv.v.(*OpaqueVal); ok {
				return ov.name
			}
			return ""
		}
		em, ok := pt.model.(*ErrModel)
		if !ok {
			return ""
		}
		if em.kind != "" {
			return em.kind
		}
		w, ok := em.wrapped.(IfaceVal)
		if !ok || w.t == nil {
			return ""
		}
		iv = w
	}
}

// formatVal renders one Sprintf operand.
func (in *Interp) formatVal(p *Path, verb byte, flags string, v Val, lenient bool) StringVal {
	if iv, ok := v.(IfaceVal); ok {
		if iv.t == nil {
			if verb == 'v' || verb == 's' {
				return concStr("<nil>")
			}
			return concStr("%!" + string(verb) + "(<nil>)")
		}
		// error / Stringer
		if pt, ok := iv.v.(*Pointer); ok && pt != nil {
			if em, ok := pt.model.(*ErrModel); ok {
				return em.msg
			}
		}
		if ov, ok := iv.v.(*OpaqueVal); ok {
			return concStr(ov.name)
		}
		if verb == 's' || verb == 'v' || verb == 'q' {
			if m := in.findMethod(iv.t, "Error"); m != nil {
				r := in.callFunction(p, nil, FuncVal{fn: m}, []Val{iv.v}, nil)
				return r.(StringVal)
			}
			if m := in.findMethod(iv.t, "String"); m != nil && !isString(iv.t) {
				if _, isSl := iv.t.Underlying().(*types.Slice); !isSl {
					r := in.callFunction(p, nil, FuncVal{fn: m}, []Val{iv.v}, nil)
					return r.(StringVal)
				}
			}
		}
		return in.formatTyped(p, verb, flags, iv.v, iv.t, lenient)
	}
	return in.formatTyped(p, verb, flags, v, nil, lenient)
}

func (in *Interp) formatTyped(p *Path, verb byte, flags string, v Val, t types.Type, lenient bool) StringVal {
	switch x := v.(type) {
	case StringVal:
		switch verb {
		case 's', 'v':
			return x
		case 'q':
			if c, ok := x.conc(); ok {
				return concStr(strconv.Quote(c))
			}
			// symbolic: quote without escaping (error texts only)
			return p.strConcat(p.strConcat(concStr("\""), x), concStr("\""))
		case 'x':
			if c, ok := x.conc(); ok {
				return concStr(fmt.Sprintf("%x", c))
			}
		}
	case SliceVal:
		if t != nil {
			if st, ok := t.Underlying().(*types.Slice); ok {
				if w, _, _ := intWidth(st.Elem()); w == 8 {
					s := sliceToStr(p, in, x)
					switch verb {
					case 's':
						return s
					case 'x':
						if c, ok := s.conc(); ok {
							return concStr(fmt.Sprintf("%x", c))
						}
					case 'v':
						if c, ok := s.conc(); ok {
							return concStr(fmt.Sprintf("%v", []byte(c)))
						}
					}
				}
			}
		}
	case *Term:
		if !x.C && x.K == KFP && x.Pool != nil {
			// a solver-chosen member of a concrete pool: format every member, select by the index
			out := concStr(fmt.Sprintf("%"+flags+string(verb), x.Pool[len(x.Pool)-1]))
			for i := len(x.Pool) - 2; i >= 0; i-- {
				out = p.strIte(p.bvCmp("=", x.Sel, mkInt(int64(i))), concStr(fmt.Sprintf("%"+flags+string(verb), x.Pool[i])), out)
			}
			return out
		}
		if x.C {
			switch x.K {
			case KBool:
				return concStr(fmt.Sprintf("%"+flags+string(verb), x.B))
			case KFP:
				return concStr(fmt.Sprintf("%"+flags+string(verb), x.F))
			case KBV:
				signed := true
				if t != nil {
					_, signed, _ = intWidth(t)
				}
				if signed {
					return concStr(fmt.Sprintf("%"+flags+string(verb), sext(x.U, x.W)))
				}
				return concStr(fmt.Sprintf("%"+flags+string(verb), x.U))
			}
		}
	}
	if lenient {
		return concStr("?")
	}
	p.end("unsupported", fmt.Sprintf("Sprintf %%%s%c of %T", flags, verb, v))
	return StringVal{}
}

func (in *Interp) sprintf(p *Path, format string, args []Val, lenient bool) (StringVal, Val) {
	out := concStr("")
	var wrapped Val
	ai := 0
	i := 0
	lit := func(s string) {
		if s != "" {
			out = p.strConcat(out, concStr(s))
		}
	}
	for i < len(format) {
		j := strings.IndexByte(format[i:], '%')
		if j < 0 {
			lit(format[i:])
			break
		}
		lit(format[i : i+j])
		i += j + 1
		k := i
		for k < len(format) && strings.IndexByte("+-# 0123456789.", format[k]) >= 0 {
			k++
		}
		if k >= len(format) {
			break
		}
		flags := format[i:k]
		verb := format[k]
		i = k + 1
		if verb == '%' {
			lit("%")
			continue
		}
		if ai >= len(args) {
			lit("%!" + string(verb) + "(MISSING)")
			continue
		}
		a := args[ai]
		ai++
		if verb == 'w' {
			wrapped = a
			verb = 'v'
		}
		out = p.strConcat(out, in.formatVal(p, verb, flags, a, lenient))
	}
	return out, wrapped
}

func variadicArgs(v Val) []Val {
	s, ok := v.(SliceVal)
	if !ok || s.back == nil {
		return nil
	}
	return s.elems()[:s.concLen()]
}

// less-callback based insertion sort (stable); forks on symbolic comparisons.
func (in *Interp) sortByLess(p *Path, fr *Frame, s SliceVal, less func(i, j int) *Term) {
	n := s.concLen()
	el := s.elems()
	for i := 1; i < n; i++ {
		for j := i; j > 0; j-- {
			if !p.branch(less(j, j-1)) {
				break
			}
			el[j], el[j-1] = el[j-1], el[j]
		}
	}
}

func classifyPanic(msg string) int {
	switch {
	case strings.Contains(msg, "index out of range"):
		return 1
	case strings.Contains(msg, "slice bounds out of range"), strings.Contains(msg, "makeslice"):
		return 2
	case strings.Contains(msg, "divide by zero"):
		return 3
	case strings.Contains(msg, "nil pointer"), strings.Contains(msg, "nil function"), strings.Contains(msg, "nil interface"):
		return 4
	case strings.Contains(msg, "nil map"):
		return 6
	case strings.Contains(msg, "negative shift"):
		return 7
	case strings.Contains(msg, "explicit panic"), strings.HasPrefix(msg, "panic:"):
		return 5
	}
	return 9
}

func init() {
	vxExtra["vxCatch"] = func(in *Interp, p *Path, fr *Frame, args []Val, site ssa.CallInstruction) (ret Val) {
		depth := p.depth
		defer func() {
			if r := recover(); r != nil {
				pe, ok := r.(pathEnd)
				if !ok || pe.kind != "panic" {
					panic(r)
				}
				p.depth = depth
				ret = mkInt(int64(classifyPanic(pe.msg)))
			}
		}()
		in.callFunction(p, fr, args[0].(FuncVal), nil, site)
		return mkInt(0)
	}
	vxExtra["vxReportInts"] = func(in *Interp, p *Path, fr *Frame, args []Val, site ssa.CallInstruction) Val {
		name := argStr(p, args[0])
		sl := args[1].(SliceVal)
		var out []int64
		if sl.back != nil {
			for _, e := range sl.elems()[:sl.concLen()] {
				t := asTerm(e)
				if !t.C {
					return nil // only meaningful in concrete replay mode
				}
				out = append(out, sext(t.U, t.W))
			}
		}
		p.ex.res.mu.Lock()
		if p.ex.res.Reports == nil {
			p.ex.res.Reports = map[string][]int64{}
		}
		p.ex.res.Reports[name] = out
		p.ex.res.mu.Unlock()
		return nil
	}
	vxExtra["vxSelF64"] = func(in *Interp, p *Path, fr *Frame, args []Val, site ssa.CallInstruction) Val {
		sl := args[0].(SliceVal)
		k := asTerm(args[1])
		n := sl.concLen()
		pool := make([]float64, n)
		for i, e := range sl.elems()[:n] {
			t := asTerm(e)
			if !t.C {
				p.end("unsupported", "vxSelF64 pool must be concrete")
			}
			pool[i] = t.F
		}
		if k.C {
			return mkF64(pool[int(k.U)%n])
		}
		r := mkF64(pool[n-1])
		for i := n - 2; i >= 0; i-- {
			r = p.ite(p.bvCmp("=", k, mkInt(int64(i))), mkF64(pool[i]), r)
		}
		nr := *r
		nr.Pool, nr.Sel = pool, k
		return &nr
	}
	vxExtra["vxSelStr"] = func(in *Interp, p *Path, fr *Frame, args []Val, site ssa.CallInstruction) Val {
		pool := p.sliceStrings(args[0])
		k := asTerm(args[1])
		if k.C {
			return pool[int(k.U)%len(pool)]
		}
		r := pool[len(pool)-1]
		for i := len(pool) - 2; i >= 0; i-- {
			r = p.strIte(p.bvCmp("=", k, mkInt(int64(i))), pool[i], r)
		}
		return r
	}
	vxExtra["vxInts"] = func(in *Interp, p *Path, fr *Frame, args []Val, site ssa.CallInstruction) Val {
		max := argInt(p, args[0])
		n := p.vxScalar(KBV, 64, "ints.len")
		p.assume(p.bvCmp("bvule", n, mkInt(int64(max))))
		el := make([]Val, max)
		for i := range el {
			el[i] = p.vxScalar(KBV, 64, fmt.Sprintf("ints[%d]", i))
		}
		k := p.concretize(n, 0, max)
		s := newSlice(el)
		s.n = mkInt(int64(k))
		s.cap = k
		return s
	}
	vxExtra["vxIntsEq"] = func(in *Interp, p *Path, fr *Frame, args []Val, site ssa.CallInstruction) Val {
		a, b := args[0].(SliceVal), args[1].(SliceVal)
		if !a.n.C || !b.n.C {
			p.end("unsupported", "vxIntsEq on symbolic lengths")
		}
		if a.n.U != b.n.U {
			return termFalse
		}
		r := termTrue
		for i := 0; i < int(a.n.U); i++ {
			r = p.and(r, p.eq(asTerm(a.elems()[i]), asTerm(b.elems()[i])))
		}
		return r
	}
	vxExtra["vxSetEnviron"] = func(in *Interp, p *Path, fr *Frame, args []Val, site ssa.CallInstruction) Val {
		p.stubs["os.Environ"] = args[0]
		return nil
	}
	// ---- C15 call-site clause: the real loader is replaced by a recorder of Config.Env. Every call
	// fails ("loader unavailable"), so a fall-back that retries with another environment is seen too.
	vxExtra["vxLoadCalls"] = func(in *Interp, p *Path, fr *Frame, args []Val, site ssa.CallInstruction) Val {
		rec, _ := p.stubs["packages.Load.envs"].([]Val)
		return mkInt(int64(len(rec)))
	}
	vxExtra["vxLoadEnv"] = func(in *Interp, p *Path, fr *Frame, args []Val, site ssa.CallInstruction) Val {
		rec, _ := p.stubs["packages.Load.envs"].([]Val)
		k := argInt(p, args[0])
		if k < 0 || k >= len(rec) {
			p.end("unsupported", "vxLoadEnv index")
		}
		if sv, ok := rec[k].(SliceVal); ok {
			return sv
		}
		return newSlice(nil)
	}
	vxExtra["vxFoldHasPrefix"] = func(in *Interp, p *Path, fr *Frame, args []Val, site ssa.CallInstruction) Val {
		return p.strHasPrefix(p.strToLower(args[0].(StringVal)), p.strToLower(args[1].(StringVal)))
	}
	vxExtra["vxTail"] = func(in *Interp, p *Path, fr *Frame, args []Val, site ssa.CallInstruction) Val {
		s := args[0].(StringVal)
		k := argInt(p, args[1])
		if k > len(s.b) {
			return concStr("")
		}
		kk := mkInt(int64(k))
		return StringVal{b: s.b[k:], n: p.ite(p.bvCmp("bvuge", s.n, kk), p.bvBin("bvsub", s.n, kk), mkInt(0))}
	}
	vxExtra["vxPrintable"] = func(in *Interp, p *Path, fr *Frame, args []Val, site ssa.CallInstruction) Val {
		s := args[0].(StringVal)
		r := p.not(p.bvCmp("=", s.n, mkInt(0)))
		for i, b := range s.b {
			within := p.bvCmp("bvult", mkInt(int64(i)), s.n)
			ok := p.and(p.not(p.bvCmp("=", b, mkBV(8, 0))), p.bvCmp("bvult", b, mkBV(8, 0x80)))
			r = p.and(r, p.implies(within, ok))
		}
		return r
	}
}

func (in *Interp) registerIntrinsics() {
	I := in.intr
	I["golang.org/x/tools/go/packages.Load"] = func(in *Interp, p *Path, fr *Frame, a []Val, s ssa.CallInstruction) Val {
		cfgT := derefType(s.Common().StaticCallee().Signature.Params().At(0).Type())
		var env Val = newSlice(nil)
		if cp, ok := a[0].(*Pointer); ok && !cp.isNil() {
			env = cp.load().(*StructVal).f[fieldIndex(cfgT, "Env")]
		}
		rec, _ := p.stubs["packages.Load.envs"].([]Val)
		p.stubs["packages.Load.envs"] = append(append([]Val(nil), rec...), env)
		rt := s.Common().StaticCallee().Signature.Results().At(0).Type()
		return TupleVal{zero(rt), in.mkErr(concStr("loader unavailable"), nil, "")}
	}
	I["go/token.NewFileSet"] = func(in *Interp, p *Path, fr *Frame, a []Val, s ssa.CallInstruction) Val {
		return &Pointer{model: &OpaqueVal{name: "fileset"}}
	}
	// ---- strings / bytes
	I["strings.HasPrefix"] = func(in *Interp, p *Path, fr *Frame, a []Val, s ssa.CallInstruction) Val {
		return p.strHasPrefix(a[0].(StringVal), a[1].(StringVal))
	}
	I["strings.HasSuffix"] = func(in *Interp, p *Path, fr *Frame, a []Val, s ssa.CallInstruction) Val {
		return p.strHasSuffix(a[0].(StringVal), a[1].(StringVal))
	}
	I["strings.Contains"] = func(in *Interp, p *Path, fr *Frame, a []Val, s ssa.CallInstruction) Val {
		return p.strContains(a[0].(StringVal), a[1].(StringVal))
	}
	I["strings.Index"] = func(in *Interp, p *Path, fr *Frame, a []Val, s ssa.CallInstruction) Val {
		return p.strIndex(a[0].(StringVal), a[1].(StringVal))
	}
	I["strings.LastIndex"] = func(in *Interp, p *Path, fr *Frame, a []Val, s ssa.CallInstruction) Val {
		return p.strLastIndex(a[0].(StringVal), a[1].(StringVal))
	}
	I["strings.IndexByte"] = func(in *Interp, p *Path, fr *Frame, a []Val, s ssa.CallInstruction) Val {
		return p.strIndex(a[0].(StringVal), StringVal{b: []*Term{asTerm(a[1])}, n: mkInt(1)})
	}
	I["strings.LastIndexByte"] = func(in *Interp, p *Path, fr *Frame, a []Val, s ssa.CallInstruction) Val {
		return p.strLastIndex(a[0].(StringVal), StringVal{b: []*Term{asTerm(a[1])}, n: mkInt(1)})
	}
	I["internal/bytealg.CountString"] = func(in *Interp, p *Path, fr *Frame, a []Val, s ssa.CallInstruction) Val {
		x := a[0].(StringVal)
		c := asTerm(a[1])
		r := mkInt(0)
		for i, b := range x.b {
			hit := p.and(p.bvCmp("bvult", mkInt(int64(i)), x.n), p.bvCmp("=", b, c))
			r = p.bvBin("bvadd", r, p.ite(hit, mkInt(1), mkInt(0)))
		}
		return r
	}
	I["internal/bytealg.IndexByteString"] = I["strings.IndexByte"]
	I["internal/bytealg.IndexString"] = I["strings.Index"]
	I["internal/stringslite.HasPrefix"] = I["strings.HasPrefix"]
	I["internal/stringslite.HasSuffix"] = I["strings.HasSuffix"]
	I["internal/stringslite.Index"] = I["strings.Index"]
	I["internal/stringslite.IndexByte"] = I["strings.IndexByte"]
	I["strings.ToUpper"] = func(in *Interp, p *Path, fr *Frame, a []Val, s ssa.CallInstruction) Val {
		x := a[0].(StringVal)
		p.assumeAllASCII(x)
		return p.strToUpper(x)
	}
	I["strings.ToLower"] = func(in *Interp, p *Path, fr *Frame, a []Val, s ssa.CallInstruction) Val {
		x := a[0].(StringVal)
		p.assumeAllASCII(x)
		return p.strToLower(x)
	}
	I["strings.EqualFold"] = func(in *Interp, p *Path, fr *Frame, a []Val, s ssa.CallInstruction) Val {
		x, y := a[0].(StringVal), a[1].(StringVal)
		p.assumeAllASCII(x)
		p.assumeAllASCII(y)
		return p.strEq(p.strToLower(x), p.strToLower(y))
	}
	I["strings.TrimPrefix"] = func(in *Interp, p *Path, fr *Frame, a []Val, s ssa.CallInstruction) Val {
		x, pre := a[0].(StringVal), a[1].(StringVal)
		if p.branch(p.strHasPrefix(x, pre)) {
			return p.strSlice(x, pre.n, nil)
		}
		return x
	}
	I["strings.TrimSuffix"] = func(in *Interp, p *Path, fr *Frame, a []Val, s ssa.CallInstruction) Val {
		x, suf := a[0].(StringVal), a[1].(StringVal)
		if p.branch(p.strHasSuffix(x, suf)) {
			return p.strSlice(x, nil, p.bvBin("bvsub", x.n, suf.n))
		}
		return x
	}
	I["strings.Join"] = func(in *Interp, p *Path, fr *Frame, a []Val, s ssa.CallInstruction) Val {
		parts := p.sliceStrings(a[0])
		sep := a[1].(StringVal)
		out := concStr("")
		for i, x := range parts {
			if i > 0 {
				out = p.strConcat(out, sep)
			}
			out = p.strConcat(out, x)
		}
		return out
	}
	I["strings.Compare"] = func(in *Interp, p *Path, fr *Frame, a []Val, s ssa.CallInstruction) Val {
		x, y := a[0].(StringVal), a[1].(StringVal)
		return p.ite(p.strEq(x, y), mkInt(0), p.ite(p.strLess(x, y), mkInt(-1), mkInt(1)))
	}
	I["bytes.HasPrefix"] = func(in *Interp, p *Path, fr *Frame, a []Val, s ssa.CallInstruction) Val {
		return p.strHasPrefix(sliceToStr(p, in, a[0]), sliceToStr(p, in, a[1]))
	}
	I["bytes.Equal"] = func(in *Interp, p *Path, fr *Frame, a []Val, s ssa.CallInstruction) Val {
		return p.strEq(sliceToStr(p, in, a[0]), sliceToStr(p, in, a[1]))
	}
	I["bytes.Compare"] = func(in *Interp, p *Path, fr *Frame, a []Val, s ssa.CallInstruction) Val {
		x, y := sliceToStr(p, in, a[0]), sliceToStr(p, in, a[1])
		return p.ite(p.strEq(x, y), mkInt(0), p.ite(p.strLess(x, y), mkInt(-1), mkInt(1)))
	}
	// strings.Builder: fields {addr *Builder; buf []byte}
	builderAppend := func(in *Interp, p *Path, recv Val, more Val) {
		pt := recv.(*Pointer)
		buf := pt.sub(1)
		cur := buf.load().(SliceVal)
		buf.store(in.appendSlice(p, cur, more, nil))
	}
	I["(*strings.Builder).WriteString"] = func(in *Interp, p *Path, fr *Frame, a []Val, s ssa.CallInstruction) Val {
		builderAppend(in, p, a[0], a[1])
		return TupleVal{a[1].(StringVal).n, IfaceVal{}}
	}
	I["(*strings.Builder).Write"] = func(in *Interp, p *Path, fr *Frame, a []Val, s ssa.CallInstruction) Val {
		builderAppend(in, p, a[0], a[1])
		return TupleVal{a[1].(SliceVal).n, IfaceVal{}}
	}
	I["(*strings.Builder).WriteByte"] = func(in *Interp, p *Path, fr *Frame, a []Val, s ssa.CallInstruction) Val {
		builderAppend(in, p, a[0], newSlice([]Val{a[1]}))
		return IfaceVal{}
	}
	I["(*strings.Builder).WriteRune"] = func(in *Interp, p *Path, fr *Frame, a []Val, s ssa.CallInstruction) Val {
		r := asTerm(a[1])
		if !r.C || r.U >= 0x80 {
			p.assumeASCII(p.extract(r, 7, 0))
		}
		builderAppend(in, p, a[0], newSlice([]Val{p.extract(r, 7, 0)}))
		return TupleVal{mkInt(1), IfaceVal{}}
	}
	I["(*strings.Builder).String"] = func(in *Interp, p *Path, fr *Frame, a []Val, s ssa.CallInstruction) Val {
		cur := a[0].(*Pointer).sub(1).load().(SliceVal)
		if cur.back == nil {
			return concStr("")
		}
		st := in.bytesToString(p, cur)
		// detach from the builder's buffer
		nb := append([]*Term(nil), st.b...)
		return StringVal{b: nb, n: st.n}
	}
	I["(*strings.Builder).Len"] = func(in *Interp, p *Path, fr *Frame, a []Val, s ssa.CallInstruction) Val {
		return a[0].(*Pointer).sub(1).load().(SliceVal).n
	}
	I["(*strings.Builder).Grow"] = noop
	I["(*strings.Builder).Reset"] = func(in *Interp, p *Path, fr *Frame, a []Val, s ssa.CallInstruction) Val {
		a[0].(*Pointer).sub(1).store(SliceVal{n: mkInt(0)})
		return nil
	}
	// bytes.Buffer: fields {buf []byte; off int; lastRead readOp}
	I["(*bytes.Buffer).Write"] = func(in *Interp, p *Path, fr *Frame, a []Val, s ssa.CallInstruction) Val {
		buf := a[0].(*Pointer).sub(0)
		buf.store(in.appendSlice(p, buf.load().(SliceVal), a[1], nil))
		return TupleVal{a[1].(SliceVal).n, IfaceVal{}}
	}
	I["(*bytes.Buffer).WriteString"] = func(in *Interp, p *Path, fr *Frame, a []Val, s ssa.CallInstruction) Val {
		buf := a[0].(*Pointer).sub(0)
		buf.store(in.appendSlice(p, buf.load().(SliceVal), a[1], nil))
		return TupleVal{a[1].(StringVal).n, IfaceVal{}}
	}
	I["(*bytes.Buffer).WriteByte"] = func(in *Interp, p *Path, fr *Frame, a []Val, s ssa.CallInstruction) Val {
		buf := a[0].(*Pointer).sub(0)
		buf.store(in.appendSlice(p, buf.load().(SliceVal), newSlice([]Val{a[1]}), nil))
		return IfaceVal{}
	}
	I["(*bytes.Buffer).Bytes"] = func(in *Interp, p *Path, fr *Frame, a []Val, s ssa.CallInstruction) Val {
		return a[0].(*Pointer).sub(0).load()
	}
	I["(*bytes.Buffer).String"] = func(in *Interp, p *Path, fr *Frame, a []Val, s ssa.CallInstruction) Val {
		cur := a[0].(*Pointer).sub(0).load().(SliceVal)
		if cur.back == nil {
			return concStr("")
		}
		st := in.bytesToString(p, cur)
		return StringVal{b: append([]*Term(nil), st.b...), n: st.n}
	}
	I["(*bytes.Buffer).Len"] = func(in *Interp, p *Path, fr *Frame, a []Val, s ssa.CallInstruction) Val {
		return a[0].(*Pointer).sub(0).load().(SliceVal).n
	}
	// ---- math
	I["math.Abs"] = func(in *Interp, p *Path, fr *Frame, a []Val, s ssa.CallInstruction) Val { return p.fpAbs(asTerm(a[0])) }
	I["math.IsNaN"] = func(in *Interp, p *Path, fr *Frame, a []Val, s ssa.CallInstruction) Val { return p.fpIsNaN(asTerm(a[0])) }
	I["math.IsInf"] = func(in *Interp, p *Path, fr *Frame, a []Val, s ssa.CallInstruction) Val {
		x := asTerm(a[0])
		sg := asTerm(a[1])
		if !sg.C {
			p.end("unsupported", "math.IsInf with symbolic sign")
		}
		inf := p.fpIsInf(x)
		switch sign := sext(sg.U, sg.W); {
		case sign > 0:
			return p.and(inf, p.fpCmp("fp.gt", x, mkF64(0)))
		case sign < 0:
			return p.and(inf, p.fpCmp("fp.lt", x, mkF64(0)))
		}
		return inf
	}
	I["math.Float64bits"] = func(in *Interp, p *Path, fr *Frame, a []Val, s ssa.CallInstruction) Val { return p.fpToBits(asTerm(a[0])) }
	I["math.Float64frombits"] = func(in *Interp, p *Path, fr *Frame, a []Val, s ssa.CallInstruction) Val { return p.bitsToFP(asTerm(a[0])) }
	I["math.Inf"] = func(in *Interp, p *Path, fr *Frame, a []Val, s ssa.CallInstruction) Val {
		return mkF64(math.Inf(argInt(p, a[0])))
	}
	I["math.NaN"] = func(in *Interp, p *Path, fr *Frame, a []Val, s ssa.CallInstruction) Val { return mkF64(math.NaN()) }
	I["math.Log2"] = func(in *Interp, p *Path, fr *Frame, a []Val, s ssa.CallInstruction) Val {
		x := asTerm(a[0])
		if x.C {
			return mkF64(math.Log2(x.F))
		}
		p.end("unsupported", "math.Log2 of symbolic value")
		return nil
	}
	I["math.Floor"] = func(in *Interp, p *Path, fr *Frame, a []Val, s ssa.CallInstruction) Val {
		x := asTerm(a[0])
		if x.C {
			return mkF64(math.Floor(x.F))
		}
		return p.nm(&Term{K: KFP, W: 64, S: "(fp.roundToIntegral RTN " + x.S + ")"})
	}
	// ---- fmt
	I["fmt.Sprintf"] = func(in *Interp, p *Path, fr *Frame, a []Val, s ssa.CallInstruction) Val {
		r, _ := in.sprintf(p, argStr(p, a[0]), variadicArgs(a[1]), false)
		return r
	}
	I["fmt.Errorf"] = func(in *Interp, p *Path, fr *Frame, a []Val, s ssa.CallInstruction) Val {
		r, w := in.sprintf(p, argStr(p, a[0]), variadicArgs(a[1]), true)
		return in.mkErr(r, w, "")
	}
	I["errors.New"] = func(in *Interp, p *Path, fr *Frame, a []Val, s ssa.CallInstruction) Val {
		return in.mkErr(a[0].(StringVal), nil, "")
	}
	I["errors.Is"] = func(in *Interp, p *Path, fr *Frame, a []Val, s ssa.CallInstruction) Val {
		cur := a[0]
		for d := 0; d < 8; d++ {
			if e := in.valEq(p, cur, a[1]); e.C && e.B {
				return termTrue
			}
			iv, ok := cur.(IfaceVal)
			if !ok || iv.t == nil {
				return termFalse
			}
			pt, ok := iv.v.(*Pointer)
			if !ok || pt == nil {
				return termFalse
			}
			em, ok := pt.model.(*ErrModel)
			if !ok || em.wrapped == nil {
				return termFalse
			}
			cur = em.wrapped
		}
		return termFalse
	}
	I["fmt.Fprintf"] = func(in *Interp, p *Path, fr *Frame, a []Val, s ssa.CallInstruction) Val {
		return TupleVal{mkInt(0), IfaceVal{}}
	}
	I["fmt.Fprintln"] = I["fmt.Fprintf"]
	I["fmt.Fprint"] = I["fmt.Fprintf"]
	I["fmt.Printf"] = I["fmt.Fprintf"]
	I["fmt.Println"] = I["fmt.Fprintf"]
	I["fmt.Print"] = I["fmt.Fprintf"]
	I["log.Printf"] = noop
	I["log.Println"] = noop
	// ---- sync
	for _, n := range []string{"(*sync.Mutex).Lock", "(*sync.Mutex).Unlock", "(*sync.RWMutex).Lock", "(*sync.RWMutex).Unlock",
		"(*sync.RWMutex).RLock", "(*sync.RWMutex).RUnlock", "time.Sleep", "(*sync.WaitGroup).Add", "(*sync.WaitGroup).Done", "(*sync.WaitGroup).Wait"} {
		I[n] = noop
	}
	I["(*sync.Once).Do"] = func(in *Interp, p *Path, fr *Frame, a []Val, s ssa.CallInstruction) Val {
		done := a[0].(*Pointer)
		key := fmt.Sprintf("$once:%p", done.obj)
		if p.stubs[key] == nil {
			p.stubs[key] = termTrue
			in.callFunction(p, fr, a[1].(FuncVal), nil, s)
		}
		return nil
	}
	// ---- os
	I["os.Environ"] = func(in *Interp, p *Path, fr *Frame, a []Val, s ssa.CallInstruction) Val {
		v, ok := p.stubs["os.Environ"]
		if !ok {
			p.end("unsupported", "os.Environ without vxSetEnviron")
		}
		src := v.(SliceVal)
		// a fresh copy each call, like the real function
		el := append([]Val(nil), src.elems()[:src.concLen()]...)
		return newSlice(el)
	}
	I["internal/abi.NoEscape"] = func(in *Interp, p *Path, fr *Frame, a []Val, s ssa.CallInstruction) Val { return a[0] }
	I["internal/abi.Escape"] = I["internal/abi.NoEscape"]
	// ---- sort
	I["sort.Strings"] = func(in *Interp, p *Path, fr *Frame, a []Val, s ssa.CallInstruction) Val {
		sl := a[0].(SliceVal)
		if sl.back == nil {
			return nil
		}
		el := sl.elems()
		in.sortByLess(p, fr, sl, func(i, j int) *Term { return p.strLess(el[i].(StringVal), el[j].(StringVal)) })
		return nil
	}
	sortSlice := func(in *Interp, p *Path, fr *Frame, a []Val, s ssa.CallInstruction) Val {
		iv := a[0].(IfaceVal)
		sl, ok := iv.v.(SliceVal)
		if !ok || sl.back == nil {
			return nil
		}
		less := a[1].(FuncVal)
		in.sortByLess(p, fr, sl, func(i, j int) *Term {
			return asTerm(in.callFunction(p, fr, less, []Val{mkInt(int64(i)), mkInt(int64(j))}, s))
		})
		return nil
	}
	I["sort.SliceStable"] = sortSlice
	I["sort.Slice"] = sortSlice
	_ = sort.Strings
}
