package main

func registerModels(in *Interp) {}
