package main

import (
	"path/filepath"
	"strings"

	"golang.org/x/tools/go/ssa"
)

func filepathClean(s string) string { return filepath.Clean(s) }

func registerModels(in *Interp) {
	registerFSModels(in)
	registerFSTable(in)
	registerHTTPModels(in)
	registerSandboxModels(in)
	registerCLIModels(in)
	registerStoreCommon(in)
	registerPebbleModel(in)
	registerPebbleHarnessHelpers(in)
	registerOSModel(in)
	registerJSONStream(in)
}

// ---------------------------------------------------------------- path / file-system stubs

type pathStub struct {
	evalKind   int
	evalResult StringVal
	abs        StringVal
	exists     bool
}

func cleanAbsFormula(p *Path, s StringVal) *Term {
	n := len(s.b)
	if n == 0 {
		return termFalse
	}
	at := func(i int) *Term { return s.b[i] }
	in := func(i int) *Term { return p.bvCmp("bvult", mkInt(int64(i)), s.n) }
	is := func(i int, c byte) *Term { return p.bvCmp("=", at(i), mkBV(8, uint64(c))) }
	end := func(i int) *Term { // position i is end of string or a separator
		if i >= n {
			return termTrue
		}
		return p.or(p.not(in(i)), is(i, '/'))
	}
	r := p.and(in(0), is(0, '/'))
	for i := 0; i < n; i++ {
		// no "//"
		if i+1 < n {
			r = p.and(r, p.not(p.andN(in(i+1), is(i, '/'), is(i+1, '/'))))
		}
		// no trailing '/' unless the string is "/"
		if i > 0 {
			last := p.bvCmp("=", s.n, mkInt(int64(i+1)))
			r = p.and(r, p.not(p.and(last, is(i, '/'))))
		}
		// no "." or ".." component after a separator at i
		if i+1 < n {
			dot := p.andN(in(i+1), is(i, '/'), is(i+1, '.'), end(i+2))
			r = p.and(r, p.not(dot))
		}
		if i+2 < n {
			dd := p.andN(in(i+2), is(i, '/'), is(i+1, '.'), is(i+2, '.'), end(i+3))
			r = p.and(r, p.not(dd))
		}
	}
	return r
}

func byteClass(p *Path, s StringVal, ok func(b *Term) *Term) *Term {
	r := termTrue
	for i, b := range s.b {
		within := p.bvCmp("bvult", mkInt(int64(i)), s.n)
		r = p.and(r, p.implies(within, ok(b)))
	}
	return r
}

func inRange(p *Path, b *Term, lo, hi byte) *Term {
	return p.and(p.bvCmp("bvuge", b, mkBV(8, uint64(lo))), p.bvCmp("bvule", b, mkBV(8, uint64(hi))))
}

func registerFSModels(in *Interp) {
	vxExtra["vxScratch"] = func(in *Interp, p *Path, fr *Frame, a []Val, s ssa.CallInstruction) Val { return concStr("/vx/s") }
	vxExtra["vxCleanupScratch"] = noop
	vxExtra["vxMkSymlink"] = noop
	vxExtra["vxCleanAbs"] = func(in *Interp, p *Path, fr *Frame, a []Val, s ssa.CallInstruction) Val {
		return cleanAbsFormula(p, a[0].(StringVal))
	}
	pathByte := func(p *Path, b *Term, slash bool) *Term {
		r := p.orN(inRange(p, b, 'a', 'z'), inRange(p, b, '0', '9'), p.bvCmp("=", b, mkBV(8, '.')), p.bvCmp("=", b, mkBV(8, '-')), p.bvCmp("=", b, mkBV(8, '_')))
		if slash {
			r = p.or(r, p.bvCmp("=", b, mkBV(8, '/')))
		}
		return r
	}
	vxExtra["vxPathBytes"] = func(in *Interp, p *Path, fr *Frame, a []Val, s ssa.CallInstruction) Val {
		return byteClass(p, a[0].(StringVal), func(b *Term) *Term { return pathByte(p, b, true) })
	}
	vxExtra["vxSimpleName"] = func(in *Interp, p *Path, fr *Frame, a []Val, s ssa.CallInstruction) Val {
		x := a[0].(StringVal)
		r := byteClass(p, x, func(b *Term) *Term {
			return p.orN(inRange(p, b, 'a', 'z'), inRange(p, b, '0', '9'), p.bvCmp("=", b, mkBV(8, '-')), p.bvCmp("=", b, mkBV(8, '_')))
		})
		r = p.and(r, p.not(p.bvCmp("=", x.n, mkInt(0))))
		if fr != nil && fr.fn.Pkg != nil && strings.HasSuffix(fr.fn.Pkg.Pkg.Path(), "/sandbox") && len(x.b) > 0 {
			for _, c := range []byte{'l', 't', 'g'} {
				r = p.and(r, p.not(p.bvCmp("=", x.b[0], mkBV(8, uint64(c)))))
			}
		}
		return r
	}
	vxExtra["vxContains"] = func(in *Interp, p *Path, fr *Frame, a []Val, s ssa.CallInstruction) Val {
		return p.strContains(a[0].(StringVal), a[1].(StringVal))
	}
	in.intr["os.IsNotExist"] = func(in *Interp, p *Path, fr *Frame, a []Val, s ssa.CallInstruction) Val {
		return mkBool(errKind(a[0]) == "notexist")
	}
	in.intr["github.com/cockroachdb/pebble.NewCache"] = func(in *Interp, p *Path, fr *Frame, a []Val, s ssa.CallInstruction) Val {
		return &Pointer{model: &OpaqueVal{name: "pebble.Cache"}}
	}
}

type pathStubBox struct{ s pathStub }

// fileInfoModel: os.FileInfo whose only observable is IsDir (C15 second call site).
type fileInfoModel struct{ dir *Term }

func (f *fileInfoModel) Invoke(in *Interp, p *Path, method string, args []Val) Val {
	if method == "IsDir" {
		return f.dir
	}
	p.end("unsupported", "FileInfo method "+method)
	return nil
}

// ---- symbolic file-system table (C20, C14): EvalSymlinks / Stat answers per path

type fsEntry struct {
	path   StringVal
	kind   int // 0 resolves to target, 1 does not exist, 2 other error, 3 resolves to itself
	target StringVal
}

type fsTable struct {
	entries []fsEntry
	def     int
	cwd     StringVal
	hasCwd  bool
}

func (p *Path) fs() *fsTable {
	t, ok := p.stubs["fstable"].(*fsTable)
	if !ok {
		t = &fsTable{def: -1}
		p.stubs["fstable"] = t
	}
	return t
}

func (p *Path) strIte(c *Term, a, b StringVal) StringVal {
	if c.C {
		if c.B {
			return a
		}
		return b
	}
	n := len(a.b)
	if len(b.b) > n {
		n = len(b.b)
	}
	out := make([]*Term, n)
	for i := 0; i < n; i++ {
		var x, y *Term = mkBV(8, 0), mkBV(8, 0)
		if i < len(a.b) {
			x = a.b[i]
		}
		if i < len(b.b) {
			y = b.b[i]
		}
		out[i] = p.ite(c, x, y)
	}
	return StringVal{b: out, n: p.ite(c, a.n, b.n)}
}

// provable: pc implies t (one solver query; unknown counts as not provable)
func (p *Path) provable(t *Term) bool {
	if t.C {
		return t.B
	}
	r, _ := p.query(false, p.not(t))
	return r == "unsat"
}

func cleanRelFormula(p *Path, s StringVal) *Term {
	if len(s.b) == 0 {
		return termFalse
	}
	withSlash := p.strConcat(concStr("/"), s)
	return p.andN(p.not(p.bvCmp("=", s.n, mkInt(0))), p.not(p.bvCmp("=", s.b[0], mkBV(8, '/'))), cleanAbsFormula(p, withSlash))
}

func stripTrailingSlash(p *Path, s StringVal) StringVal {
	// "/a/b/" -> "/a/b" ; "/" stays
	if len(s.b) == 0 {
		return s
	}
	last := p.strAt(s, p.bvBin("bvsub", s.n, mkInt(1)))
	c := p.and(p.bvCmp("bvugt", s.n, mkInt(1)), p.bvCmp("=", last, mkBV(8, '/')))
	r := StringVal{b: s.b, n: p.ite(c, p.bvBin("bvsub", s.n, mkInt(1)), s.n)}
	// a leading "//" is the same place as "/"
	if len(r.b) >= 2 {
		dbl := p.andN(p.bvCmp("bvuge", r.n, mkInt(2)), p.bvCmp("=", r.b[0], mkBV(8, '/')), p.bvCmp("=", r.b[1], mkBV(8, '/')))
		r = p.strIte(dbl, StringVal{b: r.b[1:], n: p.bvBin("bvsub", r.n, mkInt(1))}, r)
	}
	return r
}

func registerFSTable(in *Interp) {
	vxExtra["vxFSDefault"] = func(in *Interp, p *Path, fr *Frame, a []Val, s ssa.CallInstruction) Val {
		p.fs().def = argInt(p, a[0])
		return nil
	}
	vxExtra["vxFSEntry"] = func(in *Interp, p *Path, fr *Frame, a []Val, s ssa.CallInstruction) Val {
		t := p.fs()
		t.entries = append(t.entries, fsEntry{path: a[0].(StringVal), kind: argInt(p, a[1]), target: a[2].(StringVal)})
		return nil
	}
	vxExtra["vxStatIsDir"] = func(in *Interp, p *Path, fr *Frame, a []Val, s ssa.CallInstruction) Val {
		p.stubs["stat.isdir"] = asTerm(a[0])
		return nil
	}
	vxExtra["vxSetCwd"] = func(in *Interp, p *Path, fr *Frame, a []Val, s ssa.CallInstruction) Val {
		t := p.fs()
		t.cwd, t.hasCwd = a[0].(StringVal), true
		return nil
	}
	vxExtra["vxDirOf"] = func(in *Interp, p *Path, fr *Frame, a []Val, s ssa.CallInstruction) Val {
		x := a[0].(StringVal)
		idx := p.strLastIndex(x, concStr("/"))
		return StringVal{b: x.b, n: p.ite(p.bvCmp("bvsle", idx, mkInt(0)), mkInt(1), idx)}
	}
	vxExtra["vxJoin2"] = func(in *Interp, p *Path, fr *Frame, a []Val, s ssa.CallInstruction) Val {
		x, y := a[0].(StringVal), a[1].(StringVal)
		isRoot := p.strEq(x, concStr("/"))
		return p.strIte(isRoot, p.strConcat(concStr("/"), y), p.strConcat(p.strConcat(x, concStr("/")), y))
	}
	vxExtra["vxPrefer"] = func(in *Interp, p *Path, fr *Frame, a []Val, s ssa.CallInstruction) Val {
		p.prefs = append(p.prefs, asTerm(a[0]))
		return nil
	}
	lookupFS := func(in *Interp, p *Path, arg StringVal) (int, StringVal) {
		t := p.fs()
		if t.def < 0 && len(t.entries) == 0 {
			p.end("unsupported", "file-system query without a scenario (vxFSEntry/vxFSDefault)")
		}
		q := stripTrailingSlash(p, arg)
		if p.branch(p.bvCmp("=", q.n, mkInt(0))) {
			return 0, concStr(".") // filepath.EvalSymlinks("") is "."
		}
		for _, e := range t.entries {
			if p.branch(p.strEq(q, e.path)) {
				return e.kind, e.target
			}
		}
		if t.def < 0 {
			p.end("unsupported", "file-system query for a path outside the scenario")
		}
		return t.def, q
	}
	in.intr["path/filepath.EvalSymlinks"] = func(in *Interp, p *Path, fr *Frame, a []Val, s ssa.CallInstruction) Val {
		arg := a[0].(StringVal)
		kind, target := lookupFS(in, p, arg)
		switch kind {
		case 0:
			return TupleVal{target, IfaceVal{}}
		case 1:
			return TupleVal{concStr(""), in.mkErr(concStr("lstat: no such file or directory"), nil, "notexist")}
		case 3:
			q := stripTrailingSlash(p, arg)
			if !p.provable(p.or(cleanAbsFormula(p, q), cleanRelFormula(p, q))) {
				p.end("unsupported", "EvalSymlinks(self) on a path not provably clean")
			}
			return TupleVal{q, IfaceVal{}}
		}
		return TupleVal{concStr(""), in.mkErr(concStr("lstat: too many links"), nil, "other")}
	}
	in.intr["os.Stat"] = func(in *Interp, p *Path, fr *Frame, a []Val, s ssa.CallInstruction) Val {
		kind, _ := lookupFS(in, p, a[0].(StringVal))
		if kind == 0 || kind == 3 {
			if d, ok := p.stubs["stat.isdir"].(*Term); ok { // set by vxStatIsDir: FileInfo answers IsDir()
				return TupleVal{IfaceVal{t: errModelType, v: &Pointer{model: &fileInfoModel{dir: d}}}, IfaceVal{}}
			}
			return TupleVal{IfaceVal{t: errModelType, v: &Pointer{model: &OpaqueVal{name: "fileinfo"}}}, IfaceVal{}}
		}
		return TupleVal{IfaceVal{}, in.mkErr(concStr("stat: no such file or directory"), nil, "notexist")}
	}
	in.intr["os.Getwd"] = func(in *Interp, p *Path, fr *Frame, a []Val, s ssa.CallInstruction) Val {
		t := p.fs()
		if !t.hasCwd {
			p.end("unsupported", "os.Getwd without vxSetCwd")
		}
		return TupleVal{t.cwd, IfaceVal{}}
	}
	cleanIntr := func(in *Interp, p *Path, fr *Frame, a []Val, s ssa.CallInstruction) Val {
		x := a[0].(StringVal)
		if c, ok := x.conc(); ok {
			return concStr(filepathClean(c))
		}
		if p.provable(p.or(cleanAbsFormula(p, x), cleanRelFormula(p, x))) {
			return x
		}
		x, _ = p.concretizeLen(x)
		fn := s.Common().StaticCallee()
		return in.callBody(p, fr, fn, []Val{x}, s)
	}
	in.intr["path/filepath.Clean"] = cleanIntr
	in.intr["path/filepath.Join"] = func(in *Interp, p *Path, fr *Frame, a []Val, s ssa.CallInstruction) Val {
		parts := p.sliceStrings(a[0])
		var ne []StringVal
		for _, x := range parts {
			if !p.branch(p.bvCmp("=", x.n, mkInt(0))) {
				ne = append(ne, x)
			}
		}
		if len(ne) == 0 {
			return concStr("")
		}
		j := ne[0]
		for _, x := range ne[1:] {
			j = p.strConcat(p.strConcat(j, concStr("/")), x)
		}
		if c, ok := j.conc(); ok {
			return concStr(filepathClean(c))
		}
		if p.provable(p.or(cleanAbsFormula(p, j), cleanRelFormula(p, j))) {
			return j
		}
		// "/" + "/" + x : the common unclean shape
		if len(ne) == 2 && p.provable(p.strEq(ne[0], concStr("/"))) {
			k := p.strConcat(concStr("/"), ne[1])
			if p.provable(cleanAbsFormula(p, k)) {
				return k
			}
		}
		j, _ = p.concretizeLen(j)
		cl := in.prog.ImportedPackage("path/filepath").Func("Clean")
		return in.callBody(p, fr, cl, []Val{j}, s)
	}
	in.intr["path/filepath.Abs"] = func(in *Interp, p *Path, fr *Frame, a []Val, s ssa.CallInstruction) Val {
		x := a[0].(StringVal)
		if p.provable(cleanAbsFormula(p, x)) {
			return TupleVal{x, IfaceVal{}}
		}
		fn := s.Common().StaticCallee()
		return in.callBody(p, fr, fn, a, s)
	}
}


func c18PebbleCfgs(c *CheckCtx) []*HarnessCfg {
	// the embedded-store histories and the migration file stay at 2 in both tiers: with 3 the C18 check
	// as a whole did not finish in 40 minutes (the thorough tier deepens the JSON back end, 4 operations,
	// and replays one witness per truncation shape natively)
	ops, sigs := int64(2), int64(2)
	return []*HarnessCfg{
		{Name: "VerifC18_PebbleAddGet", Pkg: pebPkg, Solver: "z3", Params: map[string]int64{"ops": ops}, MaxPaths: 2000000},
		{Name: "VerifC18_Migrate", Pkg: pebPkg, Solver: "z3", Params: map[string]int64{"sigs": sigs}, MaxPaths: 2000000, Stubs: jsonStreamStubs()},
	}
}
