package main

// SMT term layer: bit-vectors, booleans and IEEE doubles with constant folding.
// Every builder is a method of *Path so that large terms can be named per path.

import (
	"fmt"
	"math"
	"math/big"
	"strings"
)

type Kind int

const (
	KBool Kind = iota
	KBV
	KFP
)

type Term struct {
	K   Kind
	W   int // BV width; FP: 64 (32 unsupported symbolically, treated as 64 with a flag)
	S   string
	C   bool // constant
	U   uint64
	B   bool
	F   float64
	Big *big.Int // constants wider than 64 bits
	R   bool     // signed value known to lie in [Lo,Hi] (justified by an assumption on the path)
	Lo  int64
	Hi  int64
	Pool []float64 // the term is Pool[Sel] (a solver-chosen member of a concrete pool); lets Sprintf format it
	Sel  *Term
}

func (t *Term) String() string { return t.S }

func maskW(v uint64, w int) uint64 {
	if w >= 64 {
		return v
	}
	return v & ((uint64(1) << uint(w)) - 1)
}

func sortStr(k Kind, w int) string {
	switch k {
	case KBool:
		return "Bool"
	case KBV:
		return fmt.Sprintf("(_ BitVec %d)", w)
	default:
		if gFPUF {
			return "(_ BitVec 64)" // abstract floats: opaque 64-bit patterns, arithmetic uninterpreted
		}
		return "(_ FloatingPoint 11 53)"
	}
}

// gFPUF is set per harness run (harnesses run one at a time): float arithmetic is abstracted to
// uninterpreted functions over 64-bit patterns. Sound for proving equalities (symmetry, determinism).
var gFPUF bool

func fpS(t *Term) string {
	if gFPUF && t.C {
		return fmt.Sprintf("#x%016x", math.Float64bits(t.F))
	}
	return t.S
}

func (t *Term) Sort() string { return sortStr(t.K, t.W) }

var termTrue = &Term{K: KBool, S: "true", C: true, B: true}
var termFalse = &Term{K: KBool, S: "false", C: true, B: false}

func mkBool(b bool) *Term {
	if b {
		return termTrue
	}
	return termFalse
}

func mkBV(w int, v uint64) *Term {
	v = maskW(v, w)
	var s string
	if w%4 == 0 && w <= 64 {
		s = fmt.Sprintf("#x%0*x", w/4, v)
	} else if w <= 64 {
		s = fmt.Sprintf("(_ bv%d %d)", v, w)
	} else {
		s = fmt.Sprintf("(_ bv%d %d)", v, w)
		return &Term{K: KBV, W: w, S: s, C: true, Big: new(big.Int).SetUint64(v)}
	}
	return &Term{K: KBV, W: w, S: s, C: true, U: v}
}

func mkBVBig(w int, v *big.Int) *Term {
	m := new(big.Int).Lsh(big.NewInt(1), uint(w))
	x := new(big.Int).Mod(v, m)
	if w <= 64 {
		return mkBV(w, x.Uint64())
	}
	return &Term{K: KBV, W: w, S: fmt.Sprintf("(_ bv%s %d)", x.String(), w), C: true, Big: x}
}

func mkInt(v int64) *Term { return mkBV(64, uint64(v)) }

const rngLimit = int64(1) << 60

func rangeOf(t *Term) (int64, int64, bool) {
	if t.K != KBV {
		return 0, 0, false
	}
	if t.C && t.W <= 64 {
		v := sext(t.U, t.W)
		return v, v, true
	}
	if t.R {
		return t.Lo, t.Hi, true
	}
	return 0, 0, false
}

func withRange(t *Term, lo, hi int64) *Term {
	if t.C || lo < -rngLimit || hi > rngLimit || lo > hi {
		return t
	}
	if t.W < 64 {
		// must fit the signed width without wrapping
		m := int64(1) << uint(t.W-1)
		if lo < -m || hi >= m {
			return t
		}
	}
	n := *t
	n.R, n.Lo, n.Hi = true, lo, hi
	return &n
}

func mkF64(f float64) *Term {
	bits := math.Float64bits(f)
	s := fmt.Sprintf("(fp #b%d #b%011b #b%052b)", bits>>63, (bits>>52)&0x7ff, bits&((1<<52)-1))
	return &Term{K: KFP, W: 64, S: s, C: true, F: f}
}

func sext(v uint64, w int) int64 {
	if w >= 64 {
		return int64(v)
	}
	sh := uint(64 - w)
	return int64(v<<sh) >> sh
}

// ---------------------------------------------------------------- naming

const nameThreshold = 96

func (p *Path) nm(t *Term) *Term {
	if t.C || len(t.S) <= nameThreshold {
		return t
	}
	p.nsym++
	name := fmt.Sprintf("t%d", p.nsym)
	p.decls = append(p.decls, fmt.Sprintf("(define-fun %s () %s %s)", name, t.Sort(), t.S))
	n := *t
	n.S = name
	return &n
}

func (p *Path) fresh(prefix string, k Kind, w int) *Term {
	p.nsym++
	name := fmt.Sprintf("%s_%d", prefix, p.nsym)
	p.decls = append(p.decls, fmt.Sprintf("(declare-const %s %s)", name, sortStr(k, w)))
	return &Term{K: k, W: w, S: name}
}

// ---------------------------------------------------------------- booleans

func (p *Path) not(a *Term) *Term {
	if a.C {
		return mkBool(!a.B)
	}
	if strings.HasPrefix(a.S, "(not ") {
		return &Term{K: KBool, S: a.S[5 : len(a.S)-1]}
	}
	return &Term{K: KBool, S: "(not " + a.S + ")"}
}

func (p *Path) and(a, b *Term) *Term {
	if a.C {
		if a.B {
			return b
		}
		return termFalse
	}
	if b.C {
		if b.B {
			return a
		}
		return termFalse
	}
	return p.nm(&Term{K: KBool, S: "(and " + a.S + " " + b.S + ")"})
}

func (p *Path) or(a, b *Term) *Term {
	if a.C {
		if a.B {
			return termTrue
		}
		return b
	}
	if b.C {
		if b.B {
			return termTrue
		}
		return a
	}
	return p.nm(&Term{K: KBool, S: "(or " + a.S + " " + b.S + ")"})
}

func (p *Path) andN(ts ...*Term) *Term {
	r := termTrue
	for _, t := range ts {
		r = p.and(r, t)
	}
	return r
}

func (p *Path) orN(ts ...*Term) *Term {
	r := termFalse
	for _, t := range ts {
		r = p.or(r, t)
	}
	return r
}

func (p *Path) implies(a, b *Term) *Term { return p.or(p.not(a), b) }

func (p *Path) ite(c, a, b *Term) *Term {
	if c.C {
		if c.B {
			return a
		}
		return b
	}
	if a == b || (a.S == b.S) {
		return a
	}
	if a.K == KBool {
		if a.C && b.C {
			if a.B && !b.B {
				return c
			}
			if !a.B && b.B {
				return p.not(c)
			}
		}
	}
	as, bs := a.S, b.S
	if a.K == KFP {
		as, bs = fpS(a), fpS(b)
	}
	res := p.nm(&Term{K: a.K, W: a.W, S: "(ite " + c.S + " " + as + " " + bs + ")"})
	if al, ah, ok1 := rangeOf(a); ok1 {
		if bl, bh, ok2 := rangeOf(b); ok2 {
			if bl < al {
				al = bl
			}
			if bh > ah {
				ah = bh
			}
			res = withRange(res, al, ah)
		}
	}
	return res
}

func (p *Path) boolEq(a, b *Term) *Term {
	if a.C && b.C {
		return mkBool(a.B == b.B)
	}
	if a.C {
		if a.B {
			return b
		}
		return p.not(b)
	}
	if b.C {
		if b.B {
			return a
		}
		return p.not(a)
	}
	return p.nm(&Term{K: KBool, S: "(= " + a.S + " " + b.S + ")"})
}

// ---------------------------------------------------------------- bit-vectors

func (p *Path) bvBin(op string, a, b *Term) *Term {
	if a.W != b.W {
		panic(fmt.Sprintf("bvBin %s width mismatch %d vs %d", op, a.W, b.W))
	}
	w := a.W
	if a.C && b.C && w <= 64 {
		x, y := a.U, b.U
		switch op {
		case "bvadd":
			return mkBV(w, x+y)
		case "bvsub":
			return mkBV(w, x-y)
		case "bvmul":
			return mkBV(w, x*y)
		case "bvand":
			return mkBV(w, x&y)
		case "bvor":
			return mkBV(w, x|y)
		case "bvxor":
			return mkBV(w, x^y)
		case "bvudiv":
			if y == 0 {
				return mkBV(w, ^uint64(0))
			}
			return mkBV(w, x/y)
		case "bvurem":
			if y == 0 {
				return mkBV(w, x)
			}
			return mkBV(w, x%y)
		case "bvsdiv":
			if y == 0 {
				break
			}
			sx, sy := sext(x, w), sext(y, w)
			if sy == -1 {
				return mkBV(w, uint64(-sx))
			}
			return mkBV(w, uint64(sx/sy))
		case "bvsrem":
			if y == 0 {
				break
			}
			sx, sy := sext(x, w), sext(y, w)
			if sy == -1 {
				return mkBV(w, 0)
			}
			return mkBV(w, uint64(sx%sy))
		case "bvshl":
			if y >= uint64(w) {
				return mkBV(w, 0)
			}
			return mkBV(w, x<<y)
		case "bvlshr":
			if y >= uint64(w) {
				return mkBV(w, 0)
			}
			return mkBV(w, x>>y)
		case "bvashr":
			sx := sext(x, w)
			if y >= uint64(w) {
				y = uint64(w - 1)
			}
			return mkBV(w, uint64(sx>>y))
		}
	}
	if a.C && b.C && w > 64 && a.Big != nil && b.Big != nil {
		switch op {
		case "bvadd":
			return mkBVBig(w, new(big.Int).Add(a.Big, b.Big))
		case "bvsub":
			return mkBVBig(w, new(big.Int).Sub(a.Big, b.Big))
		case "bvmul":
			return mkBVBig(w, new(big.Int).Mul(a.Big, b.Big))
		}
	}
	// light algebraic simplifications
	switch op {
	case "bvadd":
		if a.C && isZero(a) {
			return b
		}
		if b.C && isZero(b) {
			return a
		}
	case "bvsub":
		if b.C && isZero(b) {
			return a
		}
	case "bvmul":
		if a.C && isOne(a) {
			return b
		}
		if b.C && isOne(b) {
			return a
		}
	}
	res := p.nm(&Term{K: KBV, W: w, S: "(" + op + " " + a.S + " " + b.S + ")"})
	if al, ah, ok1 := rangeOf(a); ok1 {
		if bl, bh, ok2 := rangeOf(b); ok2 {
			switch op {
			case "bvadd":
				res = withRange(res, al+bl, ah+bh)
			case "bvsub":
				res = withRange(res, al-bh, ah-bl)
			case "bvmul":
				if al >= 0 && bl >= 0 && ah < 1<<30 && bh < 1<<30 {
					res = withRange(res, al*bl, ah*bh)
				}
			}
		}
	}
	return res
}

func isZero(t *Term) bool {
	if t.Big != nil {
		return t.Big.Sign() == 0
	}
	return t.U == 0
}
func isOne(t *Term) bool {
	if t.Big != nil {
		return t.Big.Cmp(big.NewInt(1)) == 0
	}
	return t.U == 1
}

func (p *Path) bvNot(a *Term) *Term {
	if a.C && a.W <= 64 {
		return mkBV(a.W, ^a.U)
	}
	return p.nm(&Term{K: KBV, W: a.W, S: "(bvnot " + a.S + ")"})
}

func (p *Path) bvNeg(a *Term) *Term {
	if a.C && a.W <= 64 {
		return mkBV(a.W, -a.U)
	}
	res := p.nm(&Term{K: KBV, W: a.W, S: "(bvneg " + a.S + ")"})
	if l, h, ok := rangeOf(a); ok {
		res = withRange(res, -h, -l)
	}
	return res
}

func (p *Path) bvCmp(op string, a, b *Term) *Term {
	if a.W != b.W {
		panic(fmt.Sprintf("bvCmp %s width mismatch %d vs %d (%s , %s)", op, a.W, b.W, a.S, b.S))
	}
	w := a.W
	if a.C && b.C && w <= 64 {
		x, y := a.U, b.U
		sx, sy := sext(x, w), sext(y, w)
		switch op {
		case "=":
			return mkBool(x == y)
		case "bvult":
			return mkBool(x < y)
		case "bvule":
			return mkBool(x <= y)
		case "bvugt":
			return mkBool(x > y)
		case "bvuge":
			return mkBool(x >= y)
		case "bvslt":
			return mkBool(sx < sy)
		case "bvsle":
			return mkBool(sx <= sy)
		case "bvsgt":
			return mkBool(sx > sy)
		case "bvsge":
			return mkBool(sx >= sy)
		}
	}
	if a.C && b.C && a.Big != nil && b.Big != nil && op == "=" {
		return mkBool(a.Big.Cmp(b.Big) == 0)
	}
	if op == "=" && a.S == b.S {
		return termTrue
	}
	return p.nm(&Term{K: KBool, S: "(" + op + " " + a.S + " " + b.S + ")"})
}

func (p *Path) eq(a, b *Term) *Term {
	switch a.K {
	case KBool:
		return p.boolEq(a, b)
	case KBV:
		return p.bvCmp("=", a, b)
	default:
		return p.fpCmp("fp.eq", a, b)
	}
}

func (p *Path) zext(a *Term, to int) *Term {
	if to == a.W {
		return a
	}
	if to < a.W {
		return p.extract(a, to-1, 0)
	}
	if a.C && to <= 64 {
		return mkBV(to, a.U)
	}
	if a.C && a.W <= 64 {
		return mkBVBig(to, new(big.Int).SetUint64(a.U))
	}
	return p.nm(&Term{K: KBV, W: to, S: fmt.Sprintf("((_ zero_extend %d) %s)", to-a.W, a.S)})
}

func (p *Path) sextT(a *Term, to int) *Term {
	if to == a.W {
		return a
	}
	if to < a.W {
		return p.extract(a, to-1, 0)
	}
	if a.C && to <= 64 {
		return mkBV(to, uint64(sext(a.U, a.W)))
	}
	if a.C && a.W <= 64 {
		return mkBVBig(to, big.NewInt(sext(a.U, a.W)))
	}
	return p.nm(&Term{K: KBV, W: to, S: fmt.Sprintf("((_ sign_extend %d) %s)", to-a.W, a.S)})
}

func (p *Path) extract(a *Term, hi, lo int) *Term {
	w := hi - lo + 1
	if lo == 0 && w == a.W {
		return a
	}
	if a.C && a.W <= 64 {
		return mkBV(w, a.U>>uint(lo))
	}
	return p.nm(&Term{K: KBV, W: w, S: fmt.Sprintf("((_ extract %d %d) %s)", hi, lo, a.S)})
}

func (p *Path) concat(hi, lo *Term) *Term {
	w := hi.W + lo.W
	if hi.C && lo.C && w <= 64 {
		return mkBV(w, hi.U<<uint(lo.W)|lo.U)
	}
	return p.nm(&Term{K: KBV, W: w, S: "(concat " + hi.S + " " + lo.S + ")"})
}

// ---------------------------------------------------------------- floats

func (p *Path) fpBin(op string, a, b *Term) *Term {
	if a.C && b.C && !gFPUF {
		switch op {
		case "fp.add":
			return mkF64(a.F + b.F)
		case "fp.sub":
			return mkF64(a.F - b.F)
		case "fp.mul":
			return mkF64(a.F * b.F)
		case "fp.div":
			return mkF64(a.F / b.F)
		}
	}
	if gFPUF {
		return p.ufApp("uf_"+strings.ReplaceAll(op, ".", "_"), KFP, 64, a, b)
	}
	return p.nm(&Term{K: KFP, W: 64, S: "(" + op + " RNE " + a.S + " " + b.S + ")"})
}

// ufApp applies an uninterpreted function (declared on first use on this path).
func (p *Path) ufApp(name string, k Kind, w int, args ...*Term) *Term {
	key := "$uf:" + name
	if p.stubs[key] == nil {
		p.stubs[key] = termTrue
		var as []string
		for _, a := range args {
			as = append(as, a.Sort())
		}
		p.decls = append(p.decls, fmt.Sprintf("(declare-fun %s (%s) %s)", name, strings.Join(as, " "), sortStr(k, w)))
	}
	parts := []string{name}
	for _, a := range args {
		if a.K == KFP {
			parts = append(parts, fpS(a))
		} else {
			parts = append(parts, a.S)
		}
	}
	return p.nm(&Term{K: k, W: w, S: "(" + strings.Join(parts, " ") + ")"})
}

func (p *Path) fpNeg(a *Term) *Term {
	if a.C {
		return mkF64(-a.F)
	}
	if gFPUF {
		return p.ufApp("uf_fp_neg", KFP, 64, a)
	}
	return p.nm(&Term{K: KFP, W: 64, S: "(fp.neg " + a.S + ")"})
}

func (p *Path) fpAbs(a *Term) *Term {
	if a.C {
		return mkF64(math.Abs(a.F))
	}
	if gFPUF {
		return p.ufApp("uf_fp_abs", KFP, 64, a)
	}
	return p.nm(&Term{K: KFP, W: 64, S: "(fp.abs " + a.S + ")"})
}

func (p *Path) fpIsNaN(a *Term) *Term {
	if a.C {
		return mkBool(math.IsNaN(a.F))
	}
	if gFPUF {
		return p.ufApp("uf_fp_isnan", KBool, 0, a)
	}
	return p.nm(&Term{K: KBool, S: "(fp.isNaN " + a.S + ")"})
}

func (p *Path) fpIsInf(a *Term) *Term {
	if a.C {
		return mkBool(math.IsInf(a.F, 0))
	}
	if gFPUF {
		return p.ufApp("uf_fp_isinf", KBool, 0, a)
	}
	return p.nm(&Term{K: KBool, S: "(fp.isInfinite " + a.S + ")"})
}

func (p *Path) fpCmp(op string, a, b *Term) *Term {
	if a.C && b.C {
		switch op {
		case "fp.eq":
			return mkBool(a.F == b.F)
		case "fp.lt":
			return mkBool(a.F < b.F)
		case "fp.leq":
			return mkBool(a.F <= b.F)
		case "fp.gt":
			return mkBool(a.F > b.F)
		case "fp.geq":
			return mkBool(a.F >= b.F)
		}
	}
	if gFPUF {
		return p.ufApp("uf_"+strings.ReplaceAll(op, ".", "_"), KBool, 0, a, b)
	}
	return p.nm(&Term{K: KBool, S: "(" + op + " " + a.S + " " + b.S + ")"})
}

// bit-identical comparison of doubles (used by oracles, NaN-aware)
func (p *Path) fpSame(a, b *Term) *Term {
	if a.C && b.C {
		return mkBool(math.Float64bits(a.F) == math.Float64bits(b.F))
	}
	return p.nm(&Term{K: KBool, S: "(= " + fpS(a) + " " + fpS(b) + ")"})
}

func (p *Path) intToFP(a *Term, signed bool) *Term {
	if a.C && a.W <= 64 && !gFPUF {
		if signed {
			return mkF64(float64(sext(a.U, a.W)))
		}
		return mkF64(float64(a.U))
	}
	if gFPUF {
		return p.ufApp("uf_itof", KFP, 64, a)
	}
	// a value with a known small range is converted from its low bits only (same value, far cheaper to bit-blast)
	if lo, hi, ok := rangeOf(a); ok {
		bits := 1
		for m := hi; m > 0; m >>= 1 {
			bits++
		}
		for m := -lo; m > 0; m >>= 1 {
			bits++
		}
		if lo >= 0 && bits < a.W {
			return p.nm(&Term{K: KFP, W: 64, S: "((_ to_fp_unsigned 11 53) RNE " + p.extract(a, bits-1, 0).S + ")"})
		}
		if bits+1 < a.W {
			return p.nm(&Term{K: KFP, W: 64, S: "((_ to_fp 11 53) RNE " + p.extract(a, bits, 0).S + ")"})
		}
	}
	if signed {
		return p.nm(&Term{K: KFP, W: 64, S: "((_ to_fp 11 53) RNE " + a.S + ")"})
	}
	return p.nm(&Term{K: KFP, W: 64, S: "((_ to_fp_unsigned 11 53) RNE " + a.S + ")"})
}

func (p *Path) fpToInt(a *Term, w int, signed bool) *Term {
	if a.C && !math.IsNaN(a.F) && !math.IsInf(a.F, 0) && math.Abs(a.F) < 9e18 {
		if signed {
			return mkBV(w, uint64(int64(a.F)))
		}
		if a.F >= 0 {
			return mkBV(w, uint64(a.F))
		}
	}
	if gFPUF {
		return p.ufApp(fmt.Sprintf("uf_ftoi%d", w), KBV, w, a)
	}
	if signed {
		return p.nm(&Term{K: KBV, W: w, S: fmt.Sprintf("((_ fp.to_sbv %d) RTZ %s)", w, a.S)})
	}
	return p.nm(&Term{K: KBV, W: w, S: fmt.Sprintf("((_ fp.to_ubv %d) RTZ %s)", w, a.S)})
}

// float64 <-> bits: a fresh BV constrained through to_fp (the standard trick; NaN payloads
// are not distinguished by the FP theory, which is sound for Float64frombits(Float64bits(x))).
func (p *Path) fpToBits(a *Term) *Term {
	if a.C {
		return mkBV(64, math.Float64bits(a.F))
	}
	if gFPUF {
		return &Term{K: KBV, W: 64, S: a.S}
	}
	bv := p.fresh("fbits", KBV, 64)
	p.assume(&Term{K: KBool, S: "(= ((_ to_fp 11 53) " + bv.S + ") " + a.S + ")"})
	return bv
}

func (p *Path) bitsToFP(a *Term) *Term {
	if a.C && a.W == 64 {
		return mkF64(math.Float64frombits(a.U))
	}
	if gFPUF {
		return &Term{K: KFP, W: 64, S: a.S}
	}
	return p.nm(&Term{K: KFP, W: 64, S: "((_ to_fp 11 53) " + a.S + ")"})
}
