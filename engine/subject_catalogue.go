package main

// Catalogue of subject programs for Mode S (C02, C03, C04, C12): a fixed, deterministic universe
// of Go functions P with variants Q. A variant's Kind says which catalogue produced it:
//
//	refactor:*  an edit from the property's list of behaviour-preserving refactorings (C02);
//	            the solver must still PROVE P==Q before the tool is required to agree
//	literal:*   a literal replacement that the default policy documents as abstracted
//	edit:*      a behaviour-changing (or deliberately invalid "refactoring") edit (C03, C04)
//
// The relation between P and Q is never taken from the label: it is decided by the solver.

import (
	"fmt"
	"strings"
)

type SParam struct{ N, T string }

type SVar struct {
	Tag  string
	Kind string
	Body string
	Pre  string // extra declarations needed by this variant ("FN" = variant function name)
	Par  []SParam
}

type SItem struct {
	ID     string
	Par    []SParam
	Ret    []string
	Pre    string // extra declarations for P ("FN" = function name)
	Body   string // "SELF" = the function's own name
	Vars   []SVar
	Unwind int
	Group  string
}

func P(spec string) []SParam {
	var out []SParam
	for _, f := range strings.Split(spec, ",") {
		f = strings.TrimSpace(f)
		if f == "" {
			continue
		}
		i := strings.IndexByte(f, ' ')
		out = append(out, SParam{f[:i], strings.TrimSpace(f[i+1:])})
	}
	return out
}

func R(ts ...string) []string { return ts }

func catalogue() []SItem {
	var items []SItem
	add := func(it SItem) {
		it.ID = fmt.Sprintf("%s%02d", it.Group, countGroup(items, it.Group))
		items = append(items, it)
	}

	// ---------------------------------------------------------------- A: straight-line arithmetic
	type binop struct {
		op          string
		commutative bool
	}
	for _, b := range []binop{{"+", true}, {"*", true}, {"&", true}, {"|", true}, {"^", true}, {"-", false}, {"/", false}, {"%", false}, {"<<", false}, {">>", false}, {"&^", false}} {
		kind := "edit:operand-order"
		if b.commutative {
			kind = "refactor:commute"
		}
		it := SItem{Group: "A", Par: P("a int, b int"), Ret: R("int"),
			Body: fmt.Sprintf("x := a*3 + 1\n\ty := b - 2\n\treturn (x %s y) + (a %s b)", b.op, b.op),
			Vars: []SVar{
				{Tag: "swap", Kind: kind, Body: fmt.Sprintf("x := a*3 + 1\n\ty := b - 2\n\treturn (y %s x) + (b %s a)", b.op, b.op)},
				{Tag: "ren", Kind: "refactor:rename-local", Body: fmt.Sprintf("first := a*3 + 1\n\tsecond := b - 2\n\treturn (first %s second) + (a %s b)", b.op, b.op)},
			}}
		if b.op == "<<" || b.op == ">>" {
			it.Body = fmt.Sprintf("x := a*3 + 1\n\treturn (x %s (uint(b) & 7)) + (a %s 2)", b.op, b.op)
			it.Vars = []SVar{{Tag: "ren", Kind: "refactor:rename-local", Body: fmt.Sprintf("first := a*3 + 1\n\treturn (first %s (uint(b) & 7)) + (a %s 2)", b.op, b.op)}}
		}
		other := map[string]string{"+": "-", "*": "+", "&": "|", "|": "^", "^": "&", "-": "+", "/": "%", "%": "/", "<<": ">>", ">>": "<<", "&^": "&"}[b.op]
		it.Vars = append(it.Vars, SVar{Tag: "op", Kind: "edit:operator", Body: strings.Replace(it.Body, "(x "+b.op+" ", "(x "+other+" ", 1)})
		add(it)
	}
	// narrow types: constant-type edits and wrap-around
	add(SItem{Group: "A", Par: P("a int8, b int8"), Ret: R("int8"), Body: "return a + b*2",
		Vars: []SVar{
			{Tag: "swap", Kind: "refactor:commute", Body: "return b*2 + a"},
			{Tag: "wide", Kind: "edit:const-type", Body: "return int8(int(a) + int(b)*2/1)"},
			{Tag: "sub", Kind: "edit:operator", Body: "return a - b*2"},
		}})
	add(SItem{Group: "A", Par: P("a uint8, b uint8"), Ret: R("int"), Body: "return int(a + b)",
		Vars: []SVar{
			{Tag: "wide", Kind: "edit:const-type", Body: "return int(a) + int(b)"},
			{Tag: "swap", Kind: "refactor:commute", Body: "return int(b + a)"},
		}})
	add(SItem{Group: "A", Par: P("a int, b int"), Ret: R("int", "int"), Body: "q, r := a+b, a-b\n\treturn q, r",
		Vars: []SVar{
			{Tag: "flip", Kind: "edit:result-order", Body: "q, r := a+b, a-b\n\treturn r, q"},
			{Tag: "ren", Kind: "refactor:rename-local", Body: "sum, diff := a+b, a-b\n\treturn sum, diff"},
		}})
	// small integer literals are never abstracted: 3 vs 4 must be distinguished in every context
	add(SItem{Group: "A", Par: P("a int"), Ret: R("int"), Body: "return a*3 + 5",
		Vars: []SVar{
			{Tag: "c1", Kind: "edit:smallint", Body: "return a*4 + 5"},
			{Tag: "c2", Kind: "edit:smallint", Body: "return a*3 + 6"},
			{Tag: "big", Kind: "refactor:format", Body: "return (a * 3) +\n\t\t5 // same thing"},
		}})
	add(SItem{Group: "A", Par: P("a int"), Ret: R("int"), Body: "return a*1000 + 77",
		Vars: []SVar{
			{Tag: "lit1", Kind: "literal:bigint", Body: "return a*2000 + 77"},
			{Tag: "lit2", Kind: "literal:bigint", Body: "return a*1000 + 99"},
			{Tag: "small", Kind: "edit:smallint", Body: "return a*1000 + 7"},
		}})
	add(SItem{Group: "A", Par: P("s string"), Ret: R("string"), Body: "return s + \"abc\"",
		Vars: []SVar{
			{Tag: "lit", Kind: "literal:string", Body: "return s + \"xyz\""},
			{Tag: "swap", Kind: "edit:operand-order", Body: "return \"abc\" + s"},
		}})
	add(SItem{Group: "A", Par: P("s string, t string"), Ret: R("string"), Body: "return s + t",
		Vars: []SVar{
			{Tag: "swap", Kind: "edit:operand-order", Body: "return t + s"},
			{Tag: "ren", Kind: "refactor:rename-param", Par: P("left string, right string"), Body: "return left + right"},
		}})
	add(SItem{Group: "A", Par: P("s string, t string"), Ret: R("bool"), Body: "return s == t",
		Vars: []SVar{
			{Tag: "neq", Kind: "edit:operator", Body: "return s != t"},
			{Tag: "lt", Kind: "edit:operator", Body: "return s < t"},
		}})

	// ---------------------------------------------------------------- B: branching
	type cmp struct{ op, neg string }
	for _, c := range []cmp{{">=", "<"}, {">", "<="}, {"<", ">="}, {"<=", ">"}, {"==", "!="}} {
		for _, ty := range []string{"int", "string"} {
			x, y := "a+1", "b*2"
			if ty == "string" {
				x, y = "len(a)", "len(b)+1"
			}
			add(SItem{Group: "B", Par: P("a " + ty + ", b " + ty), Ret: R("int"),
				Body: fmt.Sprintf("if a %s b {\n\t\treturn %s\n\t}\n\treturn %s", c.op, x, y),
				Vars: []SVar{
					{Tag: "neg", Kind: negKind(c.op), Body: fmt.Sprintf("if a %s b {\n\t\treturn %s\n\t}\n\treturn %s", c.neg, y, x)},
					{Tag: "arms", Kind: "edit:branch-swap", Body: fmt.Sprintf("if a %s b {\n\t\treturn %s\n\t}\n\treturn %s", c.op, y, x)},
					{Tag: "cmp", Kind: "edit:cmp-only", Body: fmt.Sprintf("if a %s b {\n\t\treturn %s\n\t}\n\treturn %s", c.neg, x, y)},
					{Tag: "else", Kind: "refactor:format", Body: fmt.Sprintf("if a %s b {\n\t\treturn %s\n\t} else {\n\t\treturn %s\n\t}", c.op, x, y)},
				}})
		}
	}
	// the comparison's value escapes: swapping the operator is only valid with every use inverted
	add(SItem{Group: "B", Par: P("a int, b int"), Ret: R("int", "bool"),
		Body: "c := a >= b\n\tif c {\n\t\treturn a, c\n\t}\n\treturn b, c",
		Vars: []SVar{
			{Tag: "inv", Kind: "edit:cmp-escapes", Body: "c := a < b\n\tif c {\n\t\treturn b, c\n\t}\n\treturn a, c"},
			{Tag: "neg", Kind: "equiv:cmp-escapes-inverted", Body: "c := a < b\n\tif c {\n\t\treturn b, !c\n\t}\n\treturn a, !c"},
		}})
	add(SItem{Group: "B", Par: P("a int, b int"), Ret: R("int"),
		Body: "c := a > b\n\tr := 0\n\tif c {\n\t\tr = 1\n\t}\n\tif c {\n\t\tr += 2\n\t} else {\n\t\tr += 4\n\t}\n\treturn r",
		Vars: []SVar{
			{Tag: "one", Kind: "edit:cmp-escapes", Body: "c := a <= b\n\tr := 0\n\tif c {\n\t\tr = 1\n\t}\n\tif c {\n\t\tr += 4\n\t} else {\n\t\tr += 2\n\t}\n\treturn r"},
		}})
	add(SItem{Group: "B", Par: P("c bool, a int, b int"), Ret: R("int"),
		Body: "if c {\n\t\treturn a + 1\n\t} else {\n\t\treturn b * 2\n\t}",
		Vars: []SVar{
			{Tag: "arms", Kind: "edit:branch-swap", Body: "if c {\n\t\treturn b * 2\n\t} else {\n\t\treturn a + 1\n\t}"},
			{Tag: "not", Kind: "refactor:cond-negate", Body: "if !c {\n\t\treturn b * 2\n\t} else {\n\t\treturn a + 1\n\t}"},
		}})
	add(SItem{Group: "B", Par: P("a int, b int"), Ret: R("int"),
		Body: "r := 0\n\tif a > 3 {\n\t\tr = b + 1\n\t} else {\n\t\tr = b - 1\n\t}\n\treturn r * 2",
		Vars: []SVar{
			{Tag: "arms", Kind: "edit:branch-swap", Body: "r := 0\n\tif a > 3 {\n\t\tr = b - 1\n\t} else {\n\t\tr = b + 1\n\t}\n\treturn r * 2"},
			{Tag: "neg", Kind: "refactor:cmp-swap", Body: "r := 0\n\tif a <= 3 {\n\t\tr = b - 1\n\t} else {\n\t\tr = b + 1\n\t}\n\treturn r * 2"},
			{Tag: "bound", Kind: "edit:smallint", Body: "r := 0\n\tif a > 4 {\n\t\tr = b + 1\n\t} else {\n\t\tr = b - 1\n\t}\n\treturn r * 2"},
		}})
	add(SItem{Group: "B", Par: P("a int, b int"), Ret: R("int"),
		Body: "if a > 0 {\n\t\tif b > 0 {\n\t\t\treturn 1\n\t\t}\n\t\treturn 2\n\t}\n\treturn 3",
		Vars: []SVar{
			{Tag: "inner", Kind: "edit:branch-swap", Body: "if a > 0 {\n\t\tif b > 0 {\n\t\t\treturn 2\n\t\t}\n\t\treturn 1\n\t}\n\treturn 3"},
			{Tag: "outer", Kind: "edit:operand", Body: "if b > 0 {\n\t\tif a > 0 {\n\t\t\treturn 1\n\t\t}\n\t\treturn 2\n\t}\n\treturn 3"},
		}})
	add(SItem{Group: "B", Par: P("a int"), Ret: R("int"),
		Body: "if a < 0 {\n\t\tpanic(\"neg\")\n\t}\n\treturn a + 1",
		Vars: []SVar{
			{Tag: "nopanic", Kind: "edit:panic-removed", Body: "if a < 0 {\n\t\treturn 0\n\t}\n\treturn a + 1"},
			{Tag: "le", Kind: "edit:cmp-only", Body: "if a <= 0 {\n\t\tpanic(\"neg\")\n\t}\n\treturn a + 1"},
		}})

	// defined (named) integer and string types take part in the >=/> normalisation like their underlying types
	add(SItem{Group: "B", Pre: "type FN_lv int", Par: P("a FN_lv, b FN_lv"), Ret: R("int"),
		Body: "if a >= b {\n\t\treturn 1\n\t}\n\treturn 2",
		Vars: []SVar{
			{Tag: "neg", Kind: "refactor:cmp-swap", Par: P("a PFN_lv, b PFN_lv"), Body: "if a < b {\n\t\treturn 2\n\t}\n\treturn 1"},
			{Tag: "arms", Kind: "edit:branch-swap", Par: P("a PFN_lv, b PFN_lv"), Body: "if a >= b {\n\t\treturn 2\n\t}\n\treturn 1"},
		}})
	add(SItem{Group: "B", Pre: "type FN_tag string", Par: P("a FN_tag, b FN_tag"), Ret: R("int"),
		Body: "if a > b {\n\t\treturn 1\n\t}\n\treturn 2",
		Vars: []SVar{
			{Tag: "neg", Kind: "refactor:cmp-swap", Par: P("a PFN_tag, b PFN_tag"), Body: "if a <= b {\n\t\treturn 2\n\t}\n\treturn 1"},
		}})
	// unsigned literals near 2^64 are large literals like any other (they do not fit in int64)
	add(SItem{Group: "A", Par: P("a uint64"), Ret: R("uint64"), Body: "return a & 0xFFFFFFFFFFFFFFFF",
		Vars: []SVar{
			{Tag: "lit", Kind: "literal:bigint", Body: "return a & 0xFFFFFFFFFFFFFFFE"},
			{Tag: "lit2", Kind: "literal:bigint", Body: "return a & 0x8000000000000000"},
			{Tag: "or", Kind: "edit:operator", Body: "return a | 0xFFFFFFFFFFFFFFFF"},
		}})
	// floating-point comparisons: x >= y is NOT the negation of x < y (NaN), so the branch-swap
	// normalisation must not apply; arithmetic is not reassociated either
	for _, c := range []cmp{{">=", "<"}, {">", "<="}} {
		add(SItem{Group: "F", Par: P("a float64, b float64"), Ret: R("int"),
			Body: fmt.Sprintf("if a %s b {\n\t\treturn 0\n\t}\n\treturn 1", c.op),
			Vars: []SVar{
				{Tag: "neg", Kind: "edit:float-cmp-negation", Body: fmt.Sprintf("if a %s b {\n\t\treturn 1\n\t}\n\treturn 0", c.neg)},
				{Tag: "arms", Kind: "edit:branch-swap", Body: fmt.Sprintf("if a %s b {\n\t\treturn 1\n\t}\n\treturn 0", c.op)},
				{Tag: "ren", Kind: "refactor:rename-param", Par: P("used float64, limit float64"), Body: fmt.Sprintf("if used %s limit {\n\t\treturn 0\n\t}\n\treturn 1", c.op)},
			}})
	}
	add(SItem{Group: "F", Par: P("a float64, b float64"), Ret: R("float64"), Body: "return a - b",
		Vars: []SVar{
			{Tag: "swap", Kind: "edit:operand-order", Body: "return b - a"},
			{Tag: "div", Kind: "edit:operator", Body: "return a / b"},
		}})
	add(SItem{Group: "F", Par: P("a float64, b float64"), Ret: R("bool"), Body: "return a == b",
		Vars: []SVar{
			{Tag: "ne", Kind: "edit:operator", Body: "return a != b"},
			{Tag: "notlt", Kind: "edit:float-cmp-negation", Body: "return !(a < b) && !(a > b)"},
		}})

	// ---------------------------------------------------------------- L: counted loops
	add(SItem{Group: "L", Par: P("n int"), Ret: R("int"), Unwind: 8,
		Body: "s := 0\n\tfor i := 0; i < n; i++ {\n\t\ts += i\n\t}\n\treturn s",
		Vars: []SVar{
			{Tag: "ren", Kind: "refactor:rename-local", Body: "total := 0\n\tfor k := 0; k < n; k++ {\n\t\ttotal += k\n\t}\n\treturn total"},
			{Tag: "step", Kind: "edit:step", Body: "s := 0\n\tfor i := 0; i < n; i += 2 {\n\t\ts += i\n\t}\n\treturn s"},
			{Tag: "start", Kind: "edit:smallint", Body: "s := 0\n\tfor i := 1; i < n; i++ {\n\t\ts += i\n\t}\n\treturn s"},
			{Tag: "le", Kind: "edit:operator", Body: "s := 0\n\tfor i := 0; i <= n; i++ {\n\t\ts += i\n\t}\n\treturn s"},
			{Tag: "brk", Kind: "refactor:cmp-swap", Body: "s := 0\n\tfor i := 0; ; i++ {\n\t\tif i >= n {\n\t\t\tbreak\n\t\t}\n\t\ts += i\n\t}\n\treturn s"},
			{Tag: "commute", Kind: "refactor:commute", Body: "s := 0\n\tfor i := 0; i < n; i++ {\n\t\ts = i + s\n\t}\n\treturn s"},
			{Tag: "label", Kind: "refactor:rename-label", Body: "s := 0\nouter:\n\tfor i := 0; i < n; i++ {\n\t\ts += i\n\t\tcontinue outer\n\t}\n\treturn s"},
		}})
	add(SItem{Group: "L", Par: P("n int"), Ret: R("int"), Unwind: 8,
		Body: "s := 0\n\tfor i := n; i > 0; i-- {\n\t\ts += i * 2\n\t}\n\treturn s",
		Vars: []SVar{
			{Tag: "ge", Kind: "edit:operator", Body: "s := 0\n\tfor i := n; i >= 0; i-- {\n\t\ts += i * 2\n\t}\n\treturn s"},
			{Tag: "step", Kind: "edit:step", Body: "s := 0\n\tfor i := n; i > 0; i -= 2 {\n\t\ts += i * 2\n\t}\n\treturn s"},
			{Tag: "neg", Kind: "refactor:cmp-swap", Body: "s := 0\n\tfor i := n; ; i-- {\n\t\tif i <= 0 {\n\t\t\tbreak\n\t\t}\n\t\ts += i * 2\n\t}\n\treturn s"},
		}})
	add(SItem{Group: "L", Par: P("a []int"), Ret: R("int"), Unwind: 6,
		Body: "s := 0\n\tfor i := 0; i < len(a); i++ {\n\t\ts += a[i]\n\t}\n\treturn s",
		Vars: []SVar{
			{Tag: "rng", Kind: "edit:loop-form", Body: "s := 0\n\tfor _, v := range a {\n\t\ts += v\n\t}\n\treturn s"},
			{Tag: "hoist", Kind: "edit:hoist-len", Body: "s := 0\n\tn := len(a)\n\tfor i := 0; i < n; i++ {\n\t\ts += a[i]\n\t}\n\treturn s"},
			{Tag: "idx", Kind: "edit:index", Body: "s := 0\n\tfor i := 0; i < len(a); i++ {\n\t\ts += a[0]\n\t}\n\treturn s"},
			{Tag: "skip", Kind: "edit:step", Body: "s := 0\n\tfor i := 0; i < len(a); i += 2 {\n\t\ts += a[i]\n\t}\n\treturn s"},
		}})
	add(SItem{Group: "L", Par: P("a []int"), Ret: R(), Unwind: 6,
		Body: "for i := 0; i < len(a); i++ {\n\t\ta[i] = i\n\t}",
		Vars: []SVar{
			{Tag: "one", Kind: "edit:smallint", Body: "for i := 0; i < len(a); i++ {\n\t\ta[i] = 1\n\t}"},
			{Tag: "rev", Kind: "edit:index", Body: "for i := 0; i < len(a); i++ {\n\t\ta[len(a)-1-i] = i\n\t}"},
		}})
	// nested loops: which induction variable is used where
	add(SItem{Group: "L", Par: P("a []int, n int, m int"), Ret: R(), Unwind: 5,
		Body: "for i := 0; i < n; i++ {\n\t\tfor j := 0; j < m; j++ {\n\t\t\ta[i] = 1\n\t\t}\n\t}",
		Vars: []SVar{
			{Tag: "ivswap", Kind: "edit:iv-swap", Body: "for i := 0; i < n; i++ {\n\t\tfor j := 0; j < m; j++ {\n\t\t\ta[j] = 1\n\t\t}\n\t}"},
			{Tag: "ren", Kind: "refactor:rename-local", Body: "for row := 0; row < n; row++ {\n\t\tfor col := 0; col < m; col++ {\n\t\t\ta[row] = 1\n\t\t}\n\t}"},
		}})
	add(SItem{Group: "L", Par: P("n int, m int"), Ret: R(), Unwind: 5,
		Body: "for i := 0; i < n; i++ {\n\t\tfor j := 0; j < m; j++ {\n\t\t\tuse(i)\n\t\t}\n\t}",
		Vars: []SVar{
			{Tag: "ivswap", Kind: "edit:iv-swap", Body: "for i := 0; i < n; i++ {\n\t\tfor j := 0; j < m; j++ {\n\t\t\tuse(j)\n\t\t}\n\t}"},
			{Tag: "both", Kind: "edit:operand", Body: "for i := 0; i < n; i++ {\n\t\tfor j := 0; j < m; j++ {\n\t\t\tuse(i + j)\n\t\t}\n\t}"},
		}})
	add(SItem{Group: "L", Par: P("n int, m int"), Ret: R("int"), Unwind: 5,
		Body: "s := 0\n\tfor i := 0; i < n; i++ {\n\t\ts += i\n\t}\n\tfor j := 0; j < m; j++ {\n\t\ts += 2 * j\n\t}\n\treturn s",
		Vars: []SVar{
			{Tag: "sib", Kind: "edit:iv-swap", Body: "s := 0\n\tfor i := 0; i < n; i++ {\n\t\ts += 2 * i\n\t}\n\tfor j := 0; j < m; j++ {\n\t\ts += j\n\t}\n\treturn s"},
			{Tag: "bounds", Kind: "edit:operand", Body: "s := 0\n\tfor i := 0; i < m; i++ {\n\t\ts += i\n\t}\n\tfor j := 0; j < n; j++ {\n\t\ts += 2 * j\n\t}\n\treturn s"},
		}})
	add(SItem{Group: "L", Par: P("n int"), Ret: R("int"), Unwind: 8,
		Body: "s := 0\n\tfor i := 0; i < n; i++ {\n\t\tif i%2 == 0 {\n\t\t\tcontinue\n\t\t}\n\t\ts += i\n\t}\n\treturn s",
		Vars: []SVar{
			{Tag: "odd", Kind: "edit:smallint", Body: "s := 0\n\tfor i := 0; i < n; i++ {\n\t\tif i%2 == 1 {\n\t\t\tcontinue\n\t\t}\n\t\ts += i\n\t}\n\treturn s"},
			{Tag: "brk", Kind: "edit:break-continue", Body: "s := 0\n\tfor i := 0; i < n; i++ {\n\t\tif i%2 == 0 {\n\t\t\tbreak\n\t\t}\n\t\ts += i\n\t}\n\treturn s"},
		}})
	add(SItem{Group: "L", Par: P("n int, k int"), Ret: R("int"), Unwind: 8,
		Body: "i := 0\n\tfor i < n {\n\t\tif i == k {\n\t\t\tbreak\n\t\t}\n\t\ti++\n\t}\n\treturn i",
		Vars: []SVar{
			{Tag: "ne", Kind: "edit:operator", Body: "i := 0\n\tfor i < n {\n\t\tif i != k {\n\t\t\tbreak\n\t\t}\n\t\ti++\n\t}\n\treturn i"},
		}})
	add(SItem{Group: "L", Par: P("n int8"), Ret: R("int"), Unwind: 300,
		Body: "c := 0\n\tfor i := int8(0); i != n; i++ {\n\t\tc++\n\t}\n\treturn c",
		Vars: []SVar{
			{Tag: "lt", Kind: "edit:operator", Body: "c := 0\n\tfor i := int8(0); i < n; i++ {\n\t\tc++\n\t}\n\treturn c"},
		}})
	add(SItem{Group: "L", Par: P("a []int, x int"), Ret: R("int"), Unwind: 6,
		Body: "for i := 0; i < len(a); i++ {\n\t\tif a[i] == x {\n\t\t\treturn i\n\t\t}\n\t}\n\treturn -1",
		Vars: []SVar{
			{Tag: "last", Kind: "edit:loop-direction", Body: "for i := len(a) - 1; i >= 0; i-- {\n\t\tif a[i] == x {\n\t\t\treturn i\n\t\t}\n\t}\n\treturn -1"},
			{Tag: "ren", Kind: "refactor:rename-param", Par: P("xs []int, needle int"), Body: "for pos := 0; pos < len(xs); pos++ {\n\t\tif xs[pos] == needle {\n\t\t\treturn pos\n\t\t}\n\t}\n\treturn -1"},
		}})
	add(SItem{Group: "L", Par: P("s string"), Ret: R("int"), Unwind: 6,
		Body: "c := 0\n\tfor i := 0; i < len(s); i++ {\n\t\tif s[i] == 'a' {\n\t\t\tc++\n\t\t}\n\t}\n\treturn c",
		Vars: []SVar{
			{Tag: "chr", Kind: "literal:bigint", Body: "c := 0\n\tfor i := 0; i < len(s); i++ {\n\t\tif s[i] == 'b' {\n\t\t\tc++\n\t\t}\n\t}\n\treturn c"},
			{Tag: "ne", Kind: "edit:operator", Body: "c := 0\n\tfor i := 0; i < len(s); i++ {\n\t\tif s[i] != 'a' {\n\t\t\tc++\n\t\t}\n\t}\n\treturn c"},
		}})
	// a map whose size changes inside the loop: hoisting len(m) would change behaviour
	add(SItem{Group: "L", Par: P("n int"), Ret: R("int"), Unwind: 8,
		Body: "m := map[int]int{0: 0}\n\tfor i := 0; i < len(m) && i < n; i++ {\n\t\tm[i+1] = i\n\t}\n\treturn len(m)",
		Vars: []SVar{
			{Tag: "hoist", Kind: "edit:hoist-len", Body: "m := map[int]int{0: 0}\n\tk := len(m)\n\tfor i := 0; i < k && i < n; i++ {\n\t\tm[i+1] = i\n\t}\n\treturn len(m)"},
		}})
	add(SItem{Group: "L", Par: P("a []int"), Ret: R("int"), Unwind: 6,
		Body: "for i := 0; i < len(a); i++ {\n\t\tif a[i] == 0 {\n\t\t\ta = a[:i]\n\t\t}\n\t}\n\treturn len(a)",
		Vars: []SVar{
			{Tag: "hoist", Kind: "edit:hoist-len", Body: "n := len(a)\n\tfor i := 0; i < n; i++ {\n\t\tif a[i] == 0 {\n\t\t\ta = a[:i]\n\t\t}\n\t}\n\treturn len(a)"},
		}})

	// defined (named) map type whose size changes inside the loop: len() must not be hoisted either
	add(SItem{Group: "L", Pre: "type FN_set map[int]bool", Par: P("n int"), Ret: R("int"), Unwind: 8,
		Body: "s := FN_set{0: true, 1: true, 2: true}\n\tc := 0\n\tfor i := 0; i < n && i < 6; i++ {\n\t\tdelete(s, i)\n\t\tc += len(s)\n\t}\n\treturn c",
		Vars: []SVar{
			{Tag: "hoist", Kind: "edit:hoist-len", Body: "s := PFN_set{0: true, 1: true, 2: true}\n\tc := 0\n\tl := len(s)\n\tfor i := 0; i < n && i < 6; i++ {\n\t\tdelete(s, i)\n\t\tc += l\n\t}\n\treturn c"},
		}})
	add(SItem{Group: "L", Pre: "type FN_set map[int]bool", Par: P("n int"), Ret: R("int"), Unwind: 8,
		Body: "s := FN_set{0: true, 1: true, 2: true}\n\trounds := 0\n\tfor i := 0; i < n; i++ {\n\t\tif len(s) == 0 {\n\t\t\tbreak\n\t\t}\n\t\tdelete(s, i)\n\t\trounds++\n\t}\n\treturn rounds",
		Vars: []SVar{
			{Tag: "hoist", Kind: "edit:hoist-len", Body: "s := PFN_set{0: true, 1: true, 2: true}\n\trounds := 0\n\tl := len(s)\n\tfor i := 0; i < n; i++ {\n\t\tif l == 0 {\n\t\t\tbreak\n\t\t}\n\t\tdelete(s, i)\n\t\trounds++\n\t}\n\treturn rounds"},
		}})
	add(SItem{Group: "L", Pre: "type FN_set map[int]bool", Par: P("n int"), Ret: R("int"), Unwind: 8,
		Body: "s := FN_set{0: true, 1: true, 2: true}\n\thash := 0\n\tfor i := 0; i < n && i < 5; i++ {\n\t\thash = hash*31 + len(s)\n\t\tdelete(s, i)\n\t}\n\treturn hash",
		Vars: []SVar{
			{Tag: "hoist", Kind: "edit:hoist-len", Body: "s := PFN_set{0: true, 1: true, 2: true}\n\thash := 0\n\tl := len(s)\n\tfor i := 0; i < n && i < 5; i++ {\n\t\thash = hash*31 + l\n\t\tdelete(s, i)\n\t}\n\treturn hash"},
		}})
	// loops without a post statement: several back edges update the variable by different amounts
	add(SItem{Group: "L", Par: P("n int"), Ret: R("int"), Unwind: 10,
		Body: "i, c := 0, 0\n\tfor i < n {\n\t\tuse(i)\n\t\tc++\n\t\tif i%3 == 0 {\n\t\t\ti += 2\n\t\t} else {\n\t\t\ti++\n\t\t\tcontinue\n\t\t}\n\t}\n\treturn c",
		Vars: []SVar{
			{Tag: "mirror", Kind: "edit:loop-form", Body: "i, c := 0, 0\n\tfor i < n {\n\t\tuse(i)\n\t\tc++\n\t\tif i%3 == 0 {\n\t\t\ti += 2\n\t\t\tcontinue\n\t\t}\n\t\ti++\n\t}\n\treturn c"},
			{Tag: "down", Kind: "edit:loop-direction", Body: "i, c := n, 0\n\tfor i > 0 {\n\t\tuse(i)\n\t\tc++\n\t\tif i%2 == 0 {\n\t\t\ti -= 3\n\t\t} else {\n\t\t\ti--\n\t\t\tcontinue\n\t\t}\n\t}\n\treturn c"},
		}})
	// loop headers entered over several outside edges with different values (the variable is
	// conditionally reassigned right before a loop without init statement; go/ssa threads the empty
	// merge block away, so the header phi has two entry operands)
	add(SItem{Group: "L", Par: P("n int, c bool"), Ret: R("int"), Unwind: 10,
		Body: "s := 0\n\ti := 0\n\tif c {\n\t\ti = 5\n\t}\n\tfor ; i < n; i++ {\n\t\ts += i\n\t\tuse(i)\n\t}\n\treturn s",
		Vars: []SVar{
			{Tag: "three", Kind: "edit:smallint", Body: "s := 0\n\ti := 0\n\tif c {\n\t\ti = 3\n\t}\n\tfor ; i < n; i++ {\n\t\ts += i\n\t\tuse(i)\n\t}\n\treturn s"},
		}})
	add(SItem{Group: "L", Par: P("n int, c bool"), Ret: R("int"), Unwind: 10,
		Body: "s := 0\n\ti := n\n\tif c {\n\t\ti = n - 4\n\t}\n\tfor ; i > 0; i-- {\n\t\ts += i\n\t\tuse(i)\n\t}\n\treturn s",
		Vars: []SVar{
			{Tag: "swap", Kind: "edit:condition", Body: "s := 0\n\ti := n\n\tif !c {\n\t\ti = n - 4\n\t}\n\tfor ; i > 0; i-- {\n\t\ts += i\n\t\tuse(i)\n\t}\n\treturn s"},
		}})

	// ---------------------------------------------------------------- S: slices, strings, structs
	add(SItem{Group: "S", Par: P("a []int"), Ret: R("int"), Body: "if len(a) < 3 {\n\t\treturn 0\n\t}\n\treturn a[1] - a[2]",
		Vars: []SVar{
			{Tag: "idx", Kind: "edit:index", Body: "if len(a) < 3 {\n\t\treturn 0\n\t}\n\treturn a[2] - a[1]"},
			{Tag: "guard", Kind: "edit:smallint", Body: "if len(a) < 2 {\n\t\treturn 0\n\t}\n\treturn a[1] - a[2]"},
		}})
	add(SItem{Group: "S", Par: P("a []int"), Ret: R("int"), Body: "b := a[1:3]\n\treturn len(b) + cap(b)*0 + b[0]",
		Vars: []SVar{
			{Tag: "lo", Kind: "edit:slice-bound", Body: "b := a[0:3]\n\treturn len(b) + cap(b)*0 + b[0]"},
			{Tag: "hi", Kind: "edit:slice-bound", Body: "b := a[1:2]\n\treturn len(b) + cap(b)*0 + b[0]"},
		}})
	add(SItem{Group: "S", Par: P("s string"), Ret: R("string"), Body: "if len(s) < 2 {\n\t\treturn s\n\t}\n\treturn s[1:]",
		Vars: []SVar{
			{Tag: "pre", Kind: "edit:slice-bound", Body: "if len(s) < 2 {\n\t\treturn s\n\t}\n\treturn s[:1]"},
		}})
	add(SItem{Group: "S", Pre: "type FN_pt struct{ x, y int }", Par: P("a int, b int"), Ret: R("int"),
		Body: "p := FN_pt{a, b}\n\tq := &p\n\tq.x += 1\n\treturn p.x*10 + p.y",
		Vars: []SVar{
			{Tag: "fld", Kind: "edit:field", Body: "p := PFN_pt{a, b}\n\tq := &p\n\tq.y += 1\n\treturn p.x*10 + p.y"},
			{Tag: "ren", Kind: "refactor:rename-local", Body: "pt := PFN_pt{a, b}\n\tref := &pt\n\tref.x += 1\n\treturn pt.x*10 + pt.y"},
		}})
	add(SItem{Group: "S", Par: P("m int, k int"), Ret: R("int", "bool"), Body: "t := map[int]int{1: m}\n\tv, ok := t[k]\n\treturn v, ok",
		Vars: []SVar{
			{Tag: "nok", Kind: "edit:commaok", Body: "t := map[int]int{1: m}\n\tv := t[k]\n\treturn v, true"},
		}})

	// ---------------------------------------------------------------- C: calls, helpers, recursion, closures, methods
	add(SItem{Group: "C", Pre: "func FN_h1(x int) int { return x + 1 }\nfunc FN_h2(x int) int { return x - 1 }", Par: P("a int"), Ret: R("int"),
		Body: "return FN_h1(a) * 2",
		Vars: []SVar{
			{Tag: "callee", Kind: "edit:callee", Body: "return PFN_h2(a) * 2"},
			{Tag: "hren", Kind: "equiv:rename-callee", Pre: "func FN_plusOne(x int) int { return x + 1 }", Body: "return FN_plusOne(a) * 2"},
		}})
	add(SItem{Group: "C", Par: P("a int, b int"), Ret: R(), Body: "use(a)\n\tuse(b)",
		Vars: []SVar{
			{Tag: "order", Kind: "edit:call-order", Body: "use(b)\n\tuse(a)"},
			{Tag: "arg", Kind: "edit:operand", Body: "use(a)\n\tuse(a)"},
		}})
	add(SItem{Group: "C", Par: P("a int"), Ret: R("int"), Body: "x := get()\n\ty := get()\n\treturn x - y + a",
		Vars: []SVar{
			{Tag: "ord", Kind: "edit:operand-order", Body: "x := get()\n\ty := get()\n\treturn y - x + a"},
			{Tag: "ren", Kind: "refactor:rename-local", Body: "first := get()\n\tsecond := get()\n\treturn first - second + a"},
		}})
	add(SItem{Group: "C", Par: P("n int"), Ret: R("int"), Unwind: 8,
		Body: "if n <= 0 {\n\t\treturn 1\n\t}\n\treturn n * SELF(n-1)",
		Vars: []SVar{
			{Tag: "fren", Kind: "refactor:rename-func-recursive", Body: "if n <= 0 {\n\t\treturn 1\n\t}\n\treturn n * SELF(n-1)"},
			{Tag: "add", Kind: "edit:operator", Body: "if n <= 0 {\n\t\treturn 1\n\t}\n\treturn n + SELF(n-1)"},
			{Tag: "base", Kind: "edit:smallint", Body: "if n <= 0 {\n\t\treturn 0\n\t}\n\treturn n * SELF(n-1)"},
		}})
	add(SItem{Group: "C", Par: P("a int, b int"), Ret: R("int"),
		Body: "f := func(x int) int { return x + a }\n\treturn f(b) * 2",
		Vars: []SVar{
			{Tag: "cap", Kind: "edit:operand", Body: "f := func(x int) int { return x + b }\n\treturn f(b) * 2"},
			{Tag: "ren", Kind: "refactor:rename-local", Body: "add := func(v int) int { return v + a }\n\treturn add(b) * 2"},
		}})
	add(SItem{Group: "C", Par: P("a int, b int"), Ret: R("int"),
		Body: "f := func(x int) int { return x * a }\n\tg := func(x int) int { return x - b }\n\treturn f(b) + g(a)",
		Vars: []SVar{
			{Tag: "fren", Kind: "refactor:rename-func-closure", Body: "f := func(x int) int { return x * a }\n\tg := func(x int) int { return x - b }\n\treturn f(b) + g(a)"},
			{Tag: "swapcl", Kind: "edit:callee", Body: "f := func(x int) int { return x * a }\n\tg := func(x int) int { return x - b }\n\treturn g(b) + f(a)"},
		}})
	add(SItem{Group: "C", Par: P("a int, b int"), Ret: R("int"), Body: "return a*2 + b",
		Vars: []SVar{
			{Tag: "fren", Kind: "refactor:rename-func", Body: "return a*2 + b"},
			{Tag: "pren", Kind: "refactor:rename-param", Par: P("x int, y int"), Body: "return x*2 + y"},
			{Tag: "cmt", Kind: "refactor:format", Body: "// doubled plus offset\n\treturn a*2 +\n\t\tb"},
		}})
	add(SItem{Group: "C", Pre: "type FN_acc struct{ v int }\n\nfunc (r *FN_acc) add(x int) { r.v += x }\nfunc (r *FN_acc) sub(x int) { r.v -= x }", Par: P("a int, b int"), Ret: R("int"),
		Body: "r := &FN_acc{a}\n\tr.add(b)\n\treturn r.v",
		Vars: []SVar{
			{Tag: "meth", Kind: "edit:callee", Body: "r := &PFN_acc{a}\n\tr.sub(b)\n\treturn r.v"},
			{Tag: "ren", Kind: "refactor:rename-local", Body: "acc := &PFN_acc{a}\n\tacc.add(b)\n\treturn acc.v"},
		}})
	add(SItem{Group: "C", Par: P("a int, b int"), Ret: R("int"),
		Body: "defer use(a)\n\tuse(b)\n\treturn a + b",
		Vars: []SVar{
			{Tag: "nodefer", Kind: "edit:call-order", Body: "use(a)\n\tuse(b)\n\treturn a + b"},
		}})
	return items
}

// the property lists only >= / > written as the opposite test; == vs != with exchanged arms is an
// equivalence the tool is not required to see through (still used by C03/C04 as a pair)
func negKind(op string) string {
	if op == "==" {
		return "equiv:eq-neq-swap"
	}
	return "refactor:cmp-swap"
}

func countGroup(items []SItem, g string) int {
	n := 0
	for _, it := range items {
		if it.Group == g {
			n++
		}
	}
	return n
}
