package main

func replayModeS(wd string, rf *ReplayFile, path string) string { return "mode S replay not built yet" }
