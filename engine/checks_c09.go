package main

import (
	"fmt"

	"golang.org/x/tools/go/ssa"
)

const diffPkg = repoMod + "/pkg/diff"

func matcherStubs() map[string]Intrinsic {
	return map[string]Intrinsic{
		topoPkg + ".ExtractTopology": func(in *Interp, p *Path, fr *Frame, a []Val, s ssa.CallInstruction) Val {
			pt := a[0].(*Pointer)
			ov, ok := pt.model.(*OpaqueVal)
			if !ok {
				p.end("unsupported", "ExtractTopology of an unbound function")
			}
			t, ok := p.stubs[fmt.Sprintf("topo:%d", ov.id)]
			if !ok {
				p.end("unsupported", "ExtractTopology of an unbound function")
			}
			return t
		},
		topoPkg + ".TopologySimilarity": func(in *Interp, p *Path, fr *Frame, a []Val, s ssa.CallInstruction) Val {
			x, y := a[0].(*Pointer), a[1].(*Pointer)
			if x.isNil() || y.isNil() {
				return mkF64(0)
			}
			key := fmt.Sprintf("sim:%p:%p", x.obj, y.obj)
			if v, ok := p.stubs[key].(*Term); ok {
				return v
			}
			v := p.vxScalar(KFP, 64, "sim")
			p.assume(p.and(p.fpCmp("fp.geq", v, mkF64(0)), p.fpCmp("fp.leq", v, mkF64(1))))
			p.stubs[key] = v
			return v
		},
	}
}

func init() {
	vxExtra["vxFn"] = func(in *Interp, p *Path, fr *Frame, a []Val, s ssa.CallInstruction) Val {
		return &Pointer{model: &OpaqueVal{name: "ssa.Function", id: argInt(p, a[0])}}
	}
	vxExtra["vxBindTopo"] = func(in *Interp, p *Path, fr *Frame, a []Val, s ssa.CallInstruction) Val {
		ov := a[0].(*Pointer).model.(*OpaqueVal)
		p.stubs[fmt.Sprintf("topo:%d", ov.id)] = a[1]
		return nil
	}
	checks["C09"] = func(c *CheckCtx) {
		// 3 functions per side did not finish within 40 minutes (solver-chosen map order times the
		// similarity case splits): both tiers run 2; the thorough tier adds the native validation of witnesses
		mf := int64(2)
		cfgs := []*HarnessCfg{
			{Name: "VerifC09_Matcher", Pkg: diffPkg, Solver: "cvc5", TimeoutMs: 60000, MaxPaths: 2000000, MapOrderSym: true, EngineReplay: true,
				Params: map[string]int64{"maxfuncs": mf}, Stubs: matcherStubs()},
		}
		c.Assumptions = append(c.Assumptions,
			"files of up to 2 old and new functions (3 did not finish within 40 minutes); each new function keeps the name of some old function or has a fresh name; fuzzy buckets solver-chosen from two; threshold 0.6",
			"topology.ExtractTopology and topology.TopologySimilarity are stubs (bound topology; an arbitrary similarity in [0,1] per ordered pair); Go map iteration order is a solver variable",
			"cli.ComputeDiff's summary counters and the added/removed operation lists of the zipper are NOT encoded (stated gap); counterexamples are confirmed by concrete re-execution of the matcher's SSA because similarity values cannot be forged natively")
		c.runModeT([]string{"pkg/diff"}, cfgs)
	}
}
