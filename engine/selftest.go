package main

// Self-test = translator validation + solver sanity, run by setup_cmd:
//  (a) canned queries with known verdicts on every solver binary;
//  (b) for a set of fast harnesses the engine collects solver models of its reachability
//      witnesses (vxCover); each model is replayed against the NATIVE build of the same harness:
//      the compiler's execution must agree with the engine's (no violated assertion, no failed
//      assumption) - the engine as an interpreter of the real code is thereby checked against
//      the Go compiler on inputs chosen by the solver, including its models of library
//      functions (strings, filepath, maps, sort, Pebble contract on a real in-memory Pebble).

import (
	"fmt"
	"os"
	"path/filepath"
	"strings"
)

func solverSanity() int {
	bad := 0
	cases := []struct {
		script string
		want   string
	}{
		{"(declare-const x (_ BitVec 8)) (assert (= (bvadd x #x01) #x00)) (assert (not (= x #xff)))", "unsat"},
		{"(declare-const x (_ BitVec 8)) (assert (bvult x #x03))", "sat"},
		{"(declare-const a (_ FloatingPoint 11 53)) (assert (not (fp.isNaN a))) (assert (not (fp.eq (fp.sub RNE a a) ((_ to_fp 11 53) RNE 0.0)))) (assert (not (fp.isInfinite a)))", "unsat"},
	}
	for _, k := range []string{"z3", "cvc5", "z3-new"} {
		for i, c := range cases {
			r, _ := oneShot(k, []string{c.script}, nil, 30000, nil)
			if r != c.want {
				fmt.Printf("SELFTEST solver %s canned query %d: got %s want %s\n", k, i, r, c.want)
				bad++
			}
		}
	}
	return bad
}

func selftest() int {
	bad := solverSanity()
	os.MkdirAll(filepath.Join(verifDir, ".work"), 0755)
	wd, _ := os.MkdirTemp(filepath.Join(verifDir, ".work"), "selftest-")
	defer os.RemoveAll(wd)
	initKnown()
	type item struct {
		pkgs []string
		cfg  *HarnessCfg
	}
	items := []item{
		{[]string{"pkg/diff"}, &HarnessCfg{Name: "VerifC15_HardenedEnv", Pkg: repoMod + "/pkg/diff", Solver: "z3", Params: map[string]int64{"entries": 2, "maxlen": 9}}},
		{[]string{"internal/sandbox"}, &HarnessCfg{Name: "VerifC14_Spec", Pkg: sbPkg, Solver: "z3", Params: map[string]int64{"mounts": 2}}},
		{[]string{"internal/sandbox"}, &HarnessCfg{Name: "VerifC14_MountPointEscape", Pkg: sbPkg, Solver: "z3", Params: map[string]int64{"destlen": 4}}},
		{[]string{"pkg/storage/jsondb"}, &HarnessCfg{Name: "VerifC18_JSONAddGet", Pkg: jsonPkg, Solver: "z3", Params: map[string]int64{"ops": 2}}},
		{[]string{"pkg/storage/pebbledb"}, &HarnessCfg{Name: "VerifC05_StoreRoundTrip", Pkg: pebPkg, Solver: "cvc5", TimeoutMs: 60000}},
		// validates the token-level json.Decoder model: every truncation shape is run on the real decoder
		{[]string{"pkg/storage/pebbledb"}, &HarnessCfg{Name: "VerifC18_Migrate", Pkg: pebPkg, Solver: "z3", Params: map[string]int64{"sigs": 2}, MaxPaths: 2000000, Stubs: jsonStreamStubs()}},
	}
	replays, agree := 0, 0
	for _, it := range items {
		in, err := loadInterp(it.pkgs, nil, nil, wd)
		if err != nil {
			fmt.Println("SELFTEST cannot load", it.pkgs, err)
			return 1
		}
		it.cfg.KeepWitnesses = true
		res := runHarness(in, it.cfg, gWorkers)
		if len(res.Violations) > 0 {
			fmt.Printf("SELFTEST note: %s reports violations on this tree (checks will report them)\n", it.cfg.Name)
		}
		seen := map[string]int{}
		pkgRel := strings.TrimPrefix(it.cfg.Pkg, repoMod+"/")
		for _, w := range res.Witnesses {
			if seen[w.Label] >= 2 || strings.HasPrefix(w.Label, "$") {
				continue
			}
			seen[w.Label]++
			rf := &ReplayFile{Property: "selftest", Pkg: pkgRel, Harness: it.cfg.Name, Label: w.Label, Vec: w.Vec, Tags: w.Tags, Params: it.cfg.Params}
			path := filepath.Join(wd, fmt.Sprintf("w-%s-%d.json", it.cfg.Name, replays))
			saveJSON(path, rf)
			replays++
			_, st, _ := nativeReplay(wd, pkgRel, rf, path)
			if st == "ok" {
				agree++
			} else if len(res.Violations) == 0 {
				fmt.Printf("SELFTEST DISAGREEMENT: harness %s witness of %q: engine says the run is clean, native run says %s\n", it.cfg.Name, w.Label, st)
				bad++
			}
		}
	}
	fmt.Printf("selftest: %d solver sanity failures; %d witness vectors replayed natively, %d agree\n", bad, replays, agree)
	if bad > 0 {
		return 1
	}
	return 0
}
