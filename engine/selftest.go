package main

func selftest() int { return 0 }
